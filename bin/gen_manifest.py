#!/usr/bin/env python3
"""Regenerates MANIFEST.json from bin/manifest_src.json (per-property texts)."""
import json, os
HERE = os.path.dirname(os.path.abspath(__file__))
VERIF = os.path.dirname(HERE)
src = json.load(open(os.path.join(HERE, "manifest_src.json")))
props = [json.loads(l) for l in open(os.path.join(VERIF, "properties.jsonl"))]
ids = [p["id"] for p in props]
checks = []
na = []
for pid in ids:
    c = src["checks"].get(pid)
    if c is None or c.get("not_applicable"):
        na.append({"property_id": pid, "reason": (c or {}).get("not_applicable", "no check built yet")})
        continue
    entry = {
        "property_id": pid,
        "quick_cmd": f"bin/check {pid} --tier quick",
        "thorough_cmd": f"bin/check {pid} --tier thorough",
        "evidence_file": f"evidence/{pid}.json",
        "replay_cmd_template": f"bin/check {pid} --replay {{path}}",
        "engine": "kani-cbmc",
        "level_claimed": {
            "category": "model_checking",
            "text": c["text"],
            "design_ref": c.get("design_ref", "DESIGN.md section 3, " + pid),
        },
        "level_note": c["note"],
        "technique": c.get("technique", "bounded model checking of the compiled a10 source: Kani 0.68 -> CBMC 6.11 -> CaDiCaL SAT, symbolic inputs via kani::any(), unwinding assertions on"),
    }
    checks.append(entry)
m = {
    "version": 1,
    "setup_cmd": src["setup_cmd"],
    "hooks": src["hooks"],
    "engines": src["engines"],
    "checks": checks,
    "notes": src["notes"],
    "not_applicable": na,
}
json.dump(m, open(os.path.join(VERIF, "MANIFEST.json"), "w"), indent=1)
print("wrote MANIFEST.json:", len(checks), "checks,", len(na), "not applicable")
