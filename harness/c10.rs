//@@ attach: src/io/mod.rs
//! C10: all-or-error composite I/O (file side: write_all, write_all_vectored,
//! read_n, read_n_vectored). One `poll` of the composite future from an
//! arbitrary accumulated progress with the inner operation `Done{res = n}`.
#![allow(dead_code, unused_imports, static_mut_refs, clippy::all, clippy::pedantic)]

use std::future::Future;
use std::pin::Pin;
use std::task::{Context, Poll};

use super::{NO_OFFSET, Read, ReadN, ReadNBuf, ReadNVectored, ReadVectored, SkipBuf, Write, WriteAll, WriteAllVectored, WriteVectored};
use crate::io::{Buf, BufMut, BufMutSlice, BufSlice, IoMutSlice, IoSlice, ReadBuf};
use crate::verif_stubs::any_vec;
use crate::extract::Extractor;
use crate::fd::{AsyncFd, Kind};
use crate::io_uring::op::verif_opsup as ops;
use crate::io_uring::verif_kernel as k;
use crate::io_uring::Submissions;
use crate::SubmissionQueue;

pub(crate) const FD: i32 = 5;
pub(crate) const OP_WRITE: u8 = 23;
pub(crate) const OP_READ: u8 = 22;

/// A ring with an empty 4-entry submission queue and a file descriptor on it.
pub(crate) fn rig() -> AsyncFd {
    k::install(k::base_table());
    k::sq_set(0, 0);
    let sq = SubmissionQueue(Submissions::new(k::build_shared(4, false, false)));
    unsafe { AsyncFd::from_raw(FD, Kind::File, sq) }
}

pub(crate) fn vec6(len: usize, content: &[u8; 6]) -> Vec<u8> {
    let mut v: Vec<u8> = Vec::with_capacity(6);
    unsafe {
        std::ptr::copy_nonoverlapping(content.as_ptr(), v.as_mut_ptr(), 6);
        v.set_len(len);
    }
    v
}

//@ prop: C10
//@ tier: quick
//@ what: WriteAll, one poll after the kernel accepted n bytes of the remaining [skip, len): finished iff skip+n == len; otherwise exactly one new WRITE (real encoder) for exactly the unwritten suffix [skip+n, len) at offset+n (or still at the current position); n == 0 -> WriteZero
//@ bound: buffer 1..=6 bytes; skip < len, 0 <= n <= len-skip, offset any u64 below 2^63 or NO_OFFSET -- all symbolic; one continuation step (inductive over sequences of short writes since skip/offset are arbitrary)
//@ encodes: <io::WriteAll as Future>::poll; io::WriteAll::poll_inner; io_uring::op::State::reset; <io_uring::io::WriteOp as FdOp>::fill_submission; <io::SkipBuf as Buf>::parts
//@ stubs: io_uring::op::poll -> two-arm model calling the operation's real map_ok/fill_submission closures (see harness/opsup.rs); <core::io::CustomOwner as Drop>::drop -> no-op
#[kani::proof]
#[kani::unwind(3)]
#[kani::stub(crate::io_uring::op::poll, crate::io_uring::op::verif_opsup::poll_model)]
#[kani::stub(<core::io::CustomOwner as core::ops::Drop>::drop, crate::verif_stubs::custom_owner_drop_noop)]
fn c10_write_all_continue() {
    let fd = rig();
    let content: [u8; 6] = kani::any();
    let len: usize = kani::any();
    kani::assume(len >= 1 && len <= 6);
    let skip: u32 = kani::any();
    kani::assume((skip as usize) < len);
    let n: usize = kani::any();
    kani::assume(n <= len - skip as usize);
    let positional: bool = kani::any();
    let offset: u64 = if positional { kani::any() } else { NO_OFFSET };
    kani::assume(offset < (1 << 63) || !positional);

    let buf = vec6(len, &content);
    let base = buf.as_ptr();
    let mut fut = WriteAll {
        write: Extractor { fut: Write::new(&fd, SkipBuf { buf, skip }, offset) },
        offset,
    };
    ops::force_done(&mut fut.write.fut.state, n as i32, 0);
    ops::model_reset();

    let w = k::waker(0);
    let mut ctx = Context::from_waker(&w);
    let res = Pin::new(&mut fut).poll(&mut ctx);

    let written = skip as usize + n;
    let requests = ops::requests();
    if n == 0 {
        assert!(matches!(res, Poll::Ready(Err(ref e)) if e.kind() == std::io::ErrorKind::WriteZero), "kernel accepted nothing: WriteZero");
        assert!(requests == 0);
    } else if written == len {
        assert!(matches!(res, Poll::Ready(Ok(()))), "everything handed over: success");
        assert!(requests == 0, "no further request");
    } else {
        assert!(res.is_pending(), "bytes left: not finished");
        assert!(requests == 1, "exactly one continuation request");
        let e = ops::last_request();
        assert!(e.opcode == OP_WRITE && e.fd == FD);
        assert!(e.addr == unsafe { base.add(written) }.addr() as u64, "continues at the first unwritten byte");
        assert!(e.len as usize == len - written, "covers exactly the unwritten suffix");
        assert!(e.off == if positional { offset + n as u64 } else { NO_OFFSET }, "continues at the right file offset");
    }
    kani::cover!(res.is_pending() && positional && skip > 0);
    kani::cover!(n == 0);
    kani::cover!(n > 0 && written == len);
    std::mem::forget(res);
    std::mem::forget(fut);
    std::mem::forget(fd);
}

//@ prop: C10
//@ tier: quick
//@ what: WriteAll extract variant: when the last bytes are accepted the caller gets back its ORIGINAL buffer (same allocation, same length), not the skipping wrapper
//@ bound: buffer 6 bytes; skip < 6 symbolic; n = 6 - skip
//@ encodes: <Extractor<io::WriteAll> as Future>::poll; io::WriteAll::poll_inner
//@ stubs: io_uring::op::poll -> two-arm model (harness/opsup.rs); <core::io::CustomOwner as Drop>::drop -> no-op
#[kani::proof]
#[kani::unwind(3)]
#[kani::stub(crate::io_uring::op::poll, crate::io_uring::op::verif_opsup::poll_model)]
#[kani::stub(<core::io::CustomOwner as core::ops::Drop>::drop, crate::verif_stubs::custom_owner_drop_noop)]
fn c10_write_all_extract() {
    let fd = rig();
    let content: [u8; 6] = kani::any();
    let skip: u32 = kani::any();
    kani::assume(skip < 6);
    let buf = vec6(6, &content);
    let base = buf.as_ptr();
    let mut fut = Extractor {
        fut: WriteAll { write: Extractor { fut: Write::new(&fd, SkipBuf { buf, skip }, NO_OFFSET) }, offset: NO_OFFSET },
    };
    ops::force_done(&mut fut.fut.write.fut.state, 6 - skip as i32, 0);
    ops::model_reset();
    let w = k::waker(0);
    let mut ctx = Context::from_waker(&w);
    match Pin::new(&mut fut).poll(&mut ctx) {
        Poll::Ready(Ok(b)) => {
            assert!(b.as_ptr() == base && b.len() == 6, "original buffer handed back");
            std::mem::forget(b);
        }
        _ => assert!(false, "all bytes accepted: must be finished"),
    }
    kani::cover!(skip > 0);
    std::mem::forget(fut);
    std::mem::forget(fd);
}

/// Expected iovec i after `skip` bytes of the concatenation were written.
fn expect_iovec(lens: &[usize], bases: &[*const u8], i: usize, skip: usize) -> (*const u8, usize) {
    let mut prefix = 0;
    let mut j = 0;
    while j < i {
        prefix += lens[j];
        j += 1;
    }
    let s = if skip <= prefix { 0 } else { core::cmp::min(lens[i], skip - prefix) };
    (unsafe { bases[i].add(s) }, lens[i] - s)
}

macro_rules! write_all_vectored_harness {
    ($name:ident, $N:expr, $CAP:expr, [$($i:expr),*], $unwind:expr) => {
        #[kani::proof]
        #[kani::unwind($unwind)]
        #[kani::stub(crate::io_uring::op::poll, crate::io_uring::op::verif_opsup::poll_model)]
        #[kani::stub(<core::io::CustomOwner as core::ops::Drop>::drop, crate::verif_stubs::custom_owner_drop_noop)]
        fn $name() {
            const N: usize = $N;
            let fd = rig();
            let bufs: [Vec<u8>; N] = [$( { let _ = $i; any_vec::<$CAP>() } ),*];
            let lens: [usize; N] = [$( bufs[$i].len() ),*];
            let bases: [*const u8; N] = [$( bufs[$i].as_ptr() ),*];
            let total: usize = 0 $( + lens[$i] )*;
            kani::assume(total >= 1);
            let skip: usize = kani::any();
            kani::assume(skip < total);
            let n: usize = kani::any();
            kani::assume(n <= total - skip);
            let positional: bool = kani::any();
            let offset: u64 = if positional { kani::any() } else { NO_OFFSET };
            kani::assume(offset < (1 << 63) || !positional);
            let iovecs = unsafe { bufs.as_iovecs() };
            let mut fut = WriteAllVectored {
                write: Extractor { fut: WriteVectored::new(&fd, (bufs, iovecs), offset) },
                offset,
                skip: skip as u64,
            };
            ops::force_done(&mut fut.write.fut.state, n as i32, 0);
            ops::model_reset();
            let w = k::waker(0);
            let mut ctx = Context::from_waker(&w);
            let res = Pin::new(&mut fut).poll(&mut ctx);
            let written = skip + n;
            let requests = ops::requests();
            if n == 0 {
                assert!(matches!(res, Poll::Ready(Err(ref e)) if e.kind() == std::io::ErrorKind::WriteZero), "kernel accepted nothing: WriteZero");
                assert!(requests == 0);
            } else if written == total {
                assert!(matches!(res, Poll::Ready(Ok(()))), "everything handed over: success");
                assert!(requests == 0, "no further request");
            } else {
                assert!(res.is_pending(), "bytes left: success must not be reported");
                assert!(requests == 1, "exactly one continuation request");
                let e = ops::last_request();
                assert!(e.opcode == OP_WRITEV && e.fd == FD && e.len == N as u32);
                assert!(e.off == if positional { offset + n as u64 } else { NO_OFFSET }, "continues at the right file offset");
                let (res_, _) = ops::resources_args(&mut fut.write.fut.state);
                assert!(e.addr == res_.1.as_ptr().addr() as u64, "request points at the stored iovec array");
                let mut left = 0;
                $(
                    let (p, l) = expect_iovec(&lens, &bases, $i, written);
                    assert!(res_.1[$i].len() == l, "iovec covers exactly the unwritten part of its buffer");
                    assert!(l == 0 || unsafe { res_.1[$i].ptr() } == p, "iovec starts at the first unwritten byte");
                    left += res_.1[$i].len();
                )*
                assert!(left == total - written, "exactly the unwritten suffix is submitted");
            }
            kani::cover!(res.is_pending() && lens[N - 1] == 0, "short write with an empty last buffer");
            kani::cover!(res.is_pending() && skip > lens[0], "first buffer fully skipped");
            kani::cover!(n > 0 && written == total);
            std::mem::forget(res);
            std::mem::forget(fut);
            std::mem::forget(fd);
        }
    };
}

pub(crate) const OP_WRITEV: u8 = 2;
pub(crate) const OP_READV: u8 = 1;

//@ prop: C10
//@ tier: quick
//@ what: WriteAllVectored, one poll after the kernel accepted n bytes: success iff every byte of every buffer was handed over (an empty last buffer must not end it early); otherwise exactly one WRITEV whose iovecs describe exactly bytes [skip+n, total) of the concatenation, at offset+n; n == 0 -> WriteZero
//@ bound: N=2 buffers of 0..=3 bytes each (empty buffers in any position), total >= 1; skip < total, n <= total-skip, offset symbolic
//@ encodes: io::WriteAllVectored::poll_inner; io_uring::op::State::reset; <io_uring::io::WriteVectoredOp as FdOp>::fill_submission; unix::IoSlice::{skip,set_len}
//@ stubs: io_uring::op::poll -> two-arm model (harness/opsup.rs); <core::io::CustomOwner as Drop>::drop -> no-op
write_all_vectored_harness!(c10_write_all_vectored_2, 2, 3, [0, 1], 4);

//@ prop: C10
//@ tier: thorough
//@ what: as c10_write_all_vectored_2 with three buffers
//@ bound: N=3 buffers of 0..=2 bytes each, total >= 1
//@ encodes: io::WriteAllVectored::poll_inner
//@ stubs: io_uring::op::poll -> two-arm model; <core::io::CustomOwner as Drop>::drop -> no-op
//@ timeout: 1500
write_all_vectored_harness!(c10_write_all_vectored_3, 3, 2, [0, 1, 2], 5);

//@ prop: C10
//@ tier: quick
//@ what: ReadN, one poll after a read of n bytes with `left` bytes still required: UnexpectedEof iff n == 0; done iff n >= left, returning the caller's buffer with the n bytes appended after what was there; otherwise exactly one READ into exactly the remaining spare capacity at offset+n, and left decreases by n
//@ bound: Vec capacity 6, 0..=5 bytes already read (symbolic), left 1..=spare, n 0..=spare, offset symbolic or current position
//@ encodes: <io::ReadN as Future>::poll; <io_uring::io::ReadOp as FdOp>::{map_ok,fill_submission}; <io::ReadNBuf as BufMut>::{set_init,parts_mut}; io_uring::op::State::reset
//@ stubs: io_uring::op::poll -> two-arm model (harness/opsup.rs); <core::io::CustomOwner as Drop>::drop -> no-op
//@ assumes: the buffer has at least `left` bytes of spare capacity (otherwise the request cannot be met)
#[kani::proof]
#[kani::unwind(3)]
#[kani::stub(crate::io_uring::op::poll, crate::io_uring::op::verif_opsup::poll_model)]
#[kani::stub(<core::io::CustomOwner as core::ops::Drop>::drop, crate::verif_stubs::custom_owner_drop_noop)]
fn c10_read_n_continue() {
    let fd = rig();
    let buf = any_vec::<6>();
    let len0 = buf.len();
    kani::assume(len0 < 6);
    let base = buf.as_ptr();
    let spare = 6 - len0;
    let left: usize = kani::any();
    kani::assume(left >= 1 && left <= spare);
    let n: usize = kani::any();
    kani::assume(n <= spare);
    let positional: bool = kani::any();
    let offset: u64 = if positional { kani::any() } else { NO_OFFSET };
    kani::assume(offset < (1 << 63) || !positional);
    let mut fut = ReadN {
        read: Read::new(&fd, ReadNBuf { buf, last_read: kani::any() }, offset),
        offset,
        left,
    };
    ops::force_done(&mut fut.read.state, n as i32, 0);
    ops::model_reset();
    let w = k::waker(0);
    let mut ctx = Context::from_waker(&w);
    let res = Pin::new(&mut fut).poll(&mut ctx);
    let requests = ops::requests();
    if n == 0 {
        assert!(matches!(res, Poll::Ready(Err(ref e)) if e.kind() == std::io::ErrorKind::UnexpectedEof), "stream ended first: UnexpectedEof");
        assert!(requests == 0);
    } else if n >= left {
        match res {
            Poll::Ready(Ok(ref b)) => {
                assert!(b.as_ptr() == base && b.len() == len0 + n, "caller's buffer, bytes appended in arrival order");
            }
            _ => assert!(false, "enough bytes: must be finished"),
        }
        assert!(requests == 0);
    } else {
        assert!(res.is_pending(), "fewer than the required bytes so far: not finished, no error");
        assert!(requests == 1);
        let e = ops::last_request();
        assert!(e.opcode == OP_READ && e.fd == FD);
        assert!(e.addr == unsafe { base.add(len0 + n) }.addr() as u64, "next read lands right after the bytes received so far");
        assert!(e.len as usize == spare - n);
        assert!(e.off == if positional { offset + n as u64 } else { NO_OFFSET });
        assert!(fut.left == left - n, "remaining requirement decreases by what arrived");
    }
    kani::cover!(res.is_pending() && positional);
    kani::cover!(n == 0);
    kani::cover!(n >= left && n > 0);
    std::mem::forget(res);
    std::mem::forget(fut);
    std::mem::forget(fd);
}

//@ prop: C10
//@ tier: quick
//@ what: ReadNVectored, one poll after n bytes arrived: same decision rule as ReadN; the continuation READV's iovecs are exactly the remaining spare capacity of each buffer in order, bytes were distributed front to back
//@ bound: N=2 Vecs of capacity 3 with symbolic fill; left 1..=spare, n 0..=spare
//@ encodes: <io::ReadNVectored as Future>::poll; <io_uring::io::ReadVectoredOp as FdOp>::{map_ok,fill_submission}; <io::ReadNBuf as BufMutSlice>::{set_init,as_iovecs_mut}
//@ stubs: io_uring::op::poll -> two-arm model (harness/opsup.rs); <core::io::CustomOwner as Drop>::drop -> no-op
//@ assumes: the buffers have at least `left` bytes of spare capacity
#[kani::proof]
#[kani::unwind(4)]
#[kani::stub(crate::io_uring::op::poll, crate::io_uring::op::verif_opsup::poll_model)]
#[kani::stub(<core::io::CustomOwner as core::ops::Drop>::drop, crate::verif_stubs::custom_owner_drop_noop)]
fn c10_read_n_vectored_continue() {
    let fd = rig();
    let bufs = [any_vec::<3>(), any_vec::<3>()];
    let lens = [bufs[0].len(), bufs[1].len()];
    let bases = [bufs[0].as_ptr(), bufs[1].as_ptr()];
    let spare = [3 - lens[0], 3 - lens[1]];
    let total_spare = spare[0] + spare[1];
    kani::assume(total_spare >= 1);
    let left: usize = kani::any();
    kani::assume(left >= 1 && left <= total_spare);
    let n: usize = kani::any();
    kani::assume(n <= total_spare);
    let mut rb = ReadNBuf { buf: bufs, last_read: kani::any() };
    let iovecs = unsafe { rb.as_iovecs_mut() };
    let mut fut = ReadNVectored { read: ReadVectored::new(&fd, (rb, iovecs), NO_OFFSET), offset: NO_OFFSET, left };
    ops::force_done(&mut fut.read.state, n as i32, 0);
    ops::model_reset();
    let w = k::waker(0);
    let mut ctx = Context::from_waker(&w);
    let res = Pin::new(&mut fut).poll(&mut ctx);
    let requests = ops::requests();
    let got0 = core::cmp::min(spare[0], n);
    let got1 = n - got0;
    if n == 0 {
        assert!(matches!(res, Poll::Ready(Err(ref e)) if e.kind() == std::io::ErrorKind::UnexpectedEof));
        assert!(requests == 0);
    } else if n >= left {
        match res {
            Poll::Ready(Ok(ref b)) => {
                assert!(b[0].as_ptr() == bases[0] && b[1].as_ptr() == bases[1], "caller's buffers");
                assert!(b[0].len() == lens[0] + got0 && b[1].len() == lens[1] + got1, "bytes distributed front to back");
            }
            _ => assert!(false, "enough bytes: must be finished"),
        }
    } else {
        assert!(res.is_pending());
        assert!(requests == 1);
        let e = ops::last_request();
        assert!(e.opcode == OP_READV && e.fd == FD && e.len == 2 && e.off == NO_OFFSET);
        let (res_, _) = ops::resources_args(&mut fut.read.state);
        assert!(e.addr == res_.1.as_ptr().addr() as u64);
        assert!(res_.1[0].len() == spare[0] - got0 && res_.1[1].len() == spare[1] - got1, "iovecs are the remaining spare capacity");
        assert!(unsafe { res_.1[0].ptr() } == unsafe { bases[0].add(lens[0] + got0) });
        assert!(unsafe { res_.1[1].ptr() } == unsafe { bases[1].add(lens[1] + got1) });
        assert!(fut.left == left - n);
    }
    kani::cover!(res.is_pending() && got1 > 0);
    kani::cover!(n >= left && n > 0);
    std::mem::forget(res);
    std::mem::forget(fut);
    std::mem::forget(fd);
}

//@ prop: C10
//@ tier: quick
//@ what: read_n with a pool ReadBuf, request side: the READ asks the kernel to select a buffer from the pool's group (IOSQE_BUFFER_SELECT + group id), not a zero-length read into a null pointer
//@ bound: pool 2x4 bytes; left 1..=4
//@ encodes: <io::ReadN as Future>::poll; <io::ReadNBuf as BufMut>::parts; <io_uring::io::ReadOp as FdOp>::fill_submission
//@ stubs: io_uring::op::poll -> two-arm model (harness/opsup.rs); <core::io::CustomOwner as Drop>::drop -> no-op
#[kani::proof]
#[kani::unwind(3)]
#[kani::stub(crate::io_uring::op::poll, crate::io_uring::op::verif_opsup::poll_model)]
#[kani::stub(<core::io::CustomOwner as core::ops::Drop>::drop, crate::verif_stubs::custom_owner_drop_noop)]
fn c10_read_n_pool_request() {
    use crate::io_uring::io::verif_c15 as pool;
    let fd = rig();
    let rig_ = pool::rig_with(pool::POOL as u16, 0);
    let rb = ReadBuf { shared: rig_.pool.clone(), owned: None };
    let left: usize = kani::any();
    kani::assume(left >= 1 && left <= pool::CAP);
    let mut fut = ReadN { read: Read::new(&fd, ReadNBuf { buf: rb, last_read: 0 }, NO_OFFSET), offset: NO_OFFSET, left };
    ops::model_reset();
    let w = k::waker(0);
    let mut ctx = Context::from_waker(&w);
    let res = Pin::new(&mut fut).poll(&mut ctx);
    assert!(res.is_pending());
    assert!(ops::requests() == 1);
    let e = ops::last_request();
    assert!(e.opcode == OP_READ && e.fd == FD);
    assert!(e.flags & IOSQE_BUFFER_SELECT != 0 && e.buf_index == 7, "kernel is asked to pick a buffer from the pool's group");
    kani::cover!(true);
    std::mem::forget(res);
    std::mem::forget(fut);
    std::mem::forget(fd);
    std::mem::forget(rig_.pool);
}

//@ prop: C10
//@ tier: quick
//@ timeout: 1200
//@ what: read_n with a pool ReadBuf, completion side: a completion carrying buffer id and n >= left bytes resolves with exactly that pool buffer holding the n bytes (no spurious UnexpectedEof); n < left continues
//@ bound: pool 2x4 bytes; buffer id 1; n (1..=4), left (1..=4) symbolic
//@ encodes: <io::ReadN as Future>::poll; <io_uring::io::ReadOp as FdOp>::map_ok; <io::ReadNBuf as BufMut>::buffer_init; io_uring::op::CompletionFlags::buf_id
//@ stubs: io_uring::op::poll -> two-arm model (harness/opsup.rs); <core::io::CustomOwner as Drop>::drop -> no-op
#[kani::proof]
#[kani::unwind(3)]
#[kani::stub(crate::io_uring::op::poll, crate::io_uring::op::verif_opsup::poll_model)]
#[kani::stub(<core::io::CustomOwner as core::ops::Drop>::drop, crate::verif_stubs::custom_owner_drop_noop)]
fn c10_read_n_pool_completion() {
    use crate::io_uring::io::verif_c15 as pool;
    let fd = rig();
    let rig_ = pool::rig_with(pool::POOL as u16, 0);
    let rb = ReadBuf { shared: rig_.pool.clone(), owned: None };
    let n: u32 = kani::any();
    kani::assume(n >= 1 && n as usize <= pool::CAP);
    let left: usize = kani::any();
    kani::assume(left >= 1 && left <= pool::CAP);
    // buffer id concrete (its decoding for every id is c08_buffer_id_decode)
    let id: u16 = 1;
    let mut fut = ReadN { read: Read::new(&fd, ReadNBuf { buf: rb, last_read: 0 }, NO_OFFSET), offset: NO_OFFSET, left };
    ops::force_done(&mut fut.read.state, n as i32, IORING_CQE_F_BUFFER | (u32::from(id) << 16));
    ops::model_reset();
    let w = k::waker(0);
    let mut ctx = Context::from_waker(&w);
    match Pin::new(&mut fut).poll(&mut ctx) {
        Poll::Ready(Ok(b)) => {
            assert!(n as usize >= left);
            assert!(b.len() == n as usize && b.as_ptr() == rig_.base(id).cast_const(), "the selected pool buffer with its bytes");
            std::mem::forget(b);
        }
        Poll::Ready(Err(e)) => {
            assert!(false, "bytes arrived: no error");
            std::mem::forget(e);
        }
        Poll::Pending => {
            assert!((n as usize) < left, "fewer than required: continues");
            assert!(ops::requests() == 1);
        }
    }
    kani::cover!(n == 4 && left == 4);
    kani::cover!((n as usize) < left);
    std::mem::forget(fut);
    std::mem::forget(fd);
    std::mem::forget(rig_.pool);
}

pub(crate) const IOSQE_BUFFER_SELECT: u8 = 1 << 5;
pub(crate) const IORING_CQE_F_BUFFER: u32 = 1;

/// Arguments (descriptor, kind) a `Close` future will submit (private state).
pub(crate) fn close_args(c: &mut super::Close) -> (i32, crate::fd::Kind) {
    let (_r, a) = ops::resources_args(&mut c.state);
    *a
}

// Accessors for C13 (`state` is private to `io`).
pub(crate) fn readv_iovecs<'a, B: BufMutSlice<N>, const N: usize>(f: &'a mut ReadVectored<'_, B, N>) -> &'a [IoMutSlice; N] {
    &ops::resources_args(&mut f.state).0.1
}
pub(crate) fn writev_iovecs<'a, B: BufSlice<N>, const N: usize>(f: &'a mut WriteVectored<'_, B, N>) -> &'a [IoSlice; N] {
    &ops::resources_args(&mut f.state).0.1
}

//@ prop: C10
//@ tier: quick
//@ what: builder settings of the file composites reach BOTH the first request's arguments and the record the continuation offset is computed from: read_n(..).from(o), read_n_vectored(..).from(o), write_all(..).at(o), write_all_vectored(..).at(o) -- created through the public API, offset any u64; without the builder both are NO_OFFSET (current position)
//@ bound: one buffer of capacity 6 / two of 3; offset any u64; builder applied or not (symbolic)
//@ encodes: AsyncFd::{read_n,read_n_vectored,write_all,write_all_vectored}; io::{ReadN,ReadNVectored}::from; io::{WriteAll,WriteAllVectored}::at; io_uring::op::State::args_mut
//@ stubs: crate::lock -> try_lock model; <core::io::CustomOwner as Drop>::drop -> no-op
#[kani::proof]
#[kani::unwind(4)]
#[kani::stub(crate::lock, crate::verif_stubs::lock_model)]
#[kani::stub(<core::io::CustomOwner as core::ops::Drop>::drop, crate::verif_stubs::custom_owner_drop_noop)]
fn c10_io_builders() {
    let fd = rig();
    let o: u64 = kani::any();
    let set: bool = kani::any();
    let want = if set { o } else { NO_OFFSET };
    let which: u8 = kani::any();
    kani::assume(which < 4);
    match which {
        0 => {
            let mut fut = fd.read_n(Vec::<u8>::with_capacity(6), 3);
            if set {
                fut = fut.from(o);
            }
            assert!(fut.offset == want && fut.left == 3, "continuation record has the offset");
            let (_, a) = ops::resources_args(&mut fut.read.state);
            assert!(*a == want, "first request has the offset");
            std::mem::forget(fut);
        }
        1 => {
            let mut fut = fd.read_n_vectored([Vec::<u8>::with_capacity(3), Vec::<u8>::with_capacity(3)], 4);
            if set {
                fut = fut.from(o);
            }
            assert!(fut.offset == want && fut.left == 4, "continuation record has the offset");
            let (_, a) = ops::resources_args(&mut fut.read.state);
            assert!(*a == want, "first request has the offset");
            std::mem::forget(fut);
        }
        2 => {
            let mut fut = fd.write_all(vec6(6, &[1, 2, 3, 4, 5, 6]));
            if set {
                fut = fut.at(o);
            }
            assert!(fut.offset == want, "continuation record has the offset");
            let (r, a) = ops::resources_args(&mut fut.write.fut.state);
            assert!(*a == want && r.skip == 0, "first request has the offset");
            std::mem::forget(fut);
        }
        _ => {
            let mut fut = fd.write_all_vectored([vec6(3, &[1, 2, 3, 4, 5, 6]), vec6(2, &[1, 2, 3, 4, 5, 6])]);
            if set {
                fut = fut.at(o);
            }
            assert!(fut.offset == want && fut.skip == 0, "continuation record has the offset");
            let (_, a) = ops::resources_args(&mut fut.write.fut.state);
            assert!(*a == want, "first request has the offset");
            std::mem::forget(fut);
        }
    }
    kani::cover!(which == 0 && set && o == 7);
    kani::cover!(which == 3 && !set);
    std::mem::forget(fd);
}
