//@@ attach: src/io_uring/io.rs
//! C15: ReadBuf edits behave as a capacity-bounded byte vector confined to
//! its pool slot.  C08 (step harnesses): pool conservation / release.
//!
//! The pool is built directly (private fields) over two concrete heap
//! allocations, skipping `sysconf` and the PBUF_RING registration; the slot
//! the "kernel" picked, the fill length and every byte are symbolic.
#![allow(dead_code, unused_imports, static_mut_refs, clippy::all, clippy::pedantic)]

use std::alloc::{Layout, alloc, alloc_zeroed};
use std::mem::MaybeUninit;
use std::ops::Bound;
use std::ptr::{self, NonNull};
use std::sync::atomic::{AtomicU16, Ordering};
use std::sync::{Arc, Mutex};

use super::{ReadBufPool, libc};
use crate::io::{Buf, BufId, BufMut, BufMutParts, ReadBuf};
use crate::io_uring::verif_kernel as k;
use crate::io_uring::Submissions;
use crate::SubmissionQueue;

pub(crate) const POOL: usize = 2;
pub(crate) const CAP: usize = 4;
const CANARY: u8 = 0xC5;

pub(crate) struct Rig {
    pub(crate) pool: Arc<ReadBufPool>,
    pub(crate) bufs: *mut u8,
    pub(crate) ring: *mut u8,
}

/// Pool of POOL buffers of CAP bytes; ring tail = `tail`; every byte of the
/// buffer area is a canary.
pub(crate) fn rig_with(pool_size: u16, tail: u16) -> Rig {
    rig_sized(pool_size, tail, CAP as u32)
}

/// Same, with buffers of `buf_size` <= CAP bytes (slot i at base + i*buf_size).
pub(crate) fn rig_sized(pool_size: u16, tail: u16, buf_size: u32) -> Rig {
    k::install(k::base_table());
    k::sq_set(0, 0);
    let sq = SubmissionQueue(Submissions::new(k::build_shared(2, false, false)));
    let bufs = unsafe { alloc(Layout::from_size_align(POOL * CAP, 8).unwrap()) };
    let ring = unsafe { alloc_zeroed(Layout::from_size_align(POOL * 16, 16).unwrap()) };
    // unrolled: a harness loop would force a large global unwind bound on
    // harnesses that also contain recursive a10 code (C10)
    macro_rules! canary { ($($i:expr),*) => { $( unsafe { bufs.add($i).write(CANARY) }; )* } }
    canary!(0, 1, 2, 3, 4, 5, 6, 7);
    const _: () = assert!(POOL * CAP == 8);
    let pool = ReadBufPool {
        id: 7,
        sq,
        pool_size,
        buf_size,
        bufs_addr: bufs,
        ring_addr: ring.cast(),
        tail_mask: pool_size - 1,
        reregister_lock: Mutex::new(()),
    };
    unsafe { ring.add(14).cast::<u16>().write(tail) };
    Rig { pool: Arc::new(pool), bufs, ring }
}

pub(crate) fn rig() -> Rig {
    rig_with(POOL as u16, kani::any())
}

impl Rig {
    pub(crate) fn tail(&self) -> u16 {
        unsafe { self.ring.add(14).cast::<u16>().read() }
    }

    /// (addr, len, bid) of ring entry `idx` -- decoded by ABI offset.
    pub(crate) fn entry(&self, idx: usize) -> (u64, u32, u16) {
        unsafe {
            let e = self.ring.add(idx * 16);
            (e.cast::<u64>().read(), e.add(8).cast::<u32>().read(), e.add(12).cast::<u16>().read())
        }
    }

    /// The kernel picked buffer `id` and wrote `n` bytes into it.
    pub(crate) fn filled(&self, id: u16, n: usize, content: &[u8; CAP]) -> ReadBuf {
        let mut rb = ReadBuf { shared: self.pool.clone(), owned: None };
        let mut i = 0;
        while i < n {
            unsafe { self.bufs.add(id as usize * CAP + i).write(content[i]) };
            i += 1;
        }
        unsafe { rb.buffer_init(BufId(id), n as u32) };
        rb
    }

    pub(crate) fn base(&self, id: u16) -> *mut u8 {
        unsafe { self.bufs.add(id as usize * CAP) }
    }

    /// Bytes outside slot `id` still hold the canary.
    pub(crate) fn canaries_intact(&self, id: u16) -> bool {
        let mut ok = true;
        let mut i = 0;
        while i < POOL * CAP {
            if i / CAP != id as usize && unsafe { self.bufs.add(i).read() } != CANARY {
                ok = false;
            }
            i += 1;
        }
        ok
    }
}

/// Reference model: fixed-capacity byte vector.
#[derive(Copy, Clone)]
struct Model {
    len: usize,
    bytes: [u8; CAP],
}

fn agrees(rb: &ReadBuf, m: &Model) -> bool {
    if rb.len() != m.len {
        return false;
    }
    let s: &[u8] = rb;
    let mut i = 0;
    while i < CAP {
        if i < m.len && s[i] != m.bytes[i] {
            return false;
        }
        i += 1;
    }
    true
}

struct Case {
    rig: Rig,
    id: u16,
    rb: ReadBuf,
    m: Model,
}

fn any_case() -> Case {
    let rig = rig();
    let id: u16 = kani::any();
    kani::assume((id as usize) < POOL);
    let n: usize = kani::any();
    kani::assume(n <= CAP);
    let content: [u8; CAP] = kani::any();
    let rb = rig.filled(id, n, &content);
    assert!(rb.capacity() == CAP);
    Case { rig, id, rb, m: Model { len: n, bytes: content } }
}

/// Common epilogue: still inside its slot, neighbours untouched, and release
/// gives back exactly this slot once.
fn finish(mut c: Case) {
    assert!(agrees(&c.rb, &c.m), "same length and bytes as the vector model");
    assert!(c.rb.owned.unwrap().cast::<u8>().as_ptr() == c.rig.base(c.id), "base pointer unchanged");
    assert!(c.rb.len() <= CAP);
    assert!(c.rig.canaries_intact(c.id), "neighbouring slots untouched");
    let tail0 = c.rig.tail();
    c.rb.release();
    let idx = (tail0 & (POOL as u16 - 1)) as usize;
    let (addr, len, bid) = c.rig.entry(idx);
    assert!(bid == c.id, "release gives back the same slot");
    assert!(addr == c.rig.base(c.id).addr() as u64 && len == CAP as u32);
    assert!(c.rig.tail() == tail0.wrapping_add(1));
    // releasing / dropping again gives nothing back
    c.rb.release();
    assert!(c.rig.tail() == tail0.wrapping_add(1), "released exactly once");
    assert!(c.rb.len() == 0 && c.rb.owned.is_none());
    std::mem::forget(c.rb);
    std::mem::forget(c.rig.pool);
}

//@ prop: C15
//@ tier: quick
//@ what: ReadBuf::truncate(len) for every usize len and clear(): Vec semantics (shorten or no-op), bytes kept, slot/neighbours/release unaffected
//@ bound: pool of 2 slots x 4 bytes; slot, fill length 0..=4 and contents symbolic; len any usize; ring tail any u16
//@ encodes: io::ReadBuf::{truncate,clear,len,capacity,deref,release}; io_uring::io::ReadBufPool::{init_buffer,release}
#[kani::proof]
#[kani::unwind(10)]
fn c15_truncate_clear() {
    let mut c = any_case();
    if kani::any() {
        let len: usize = kani::any();
        c.rb.truncate(len);
        if len < c.m.len {
            c.m.len = len;
        }
        kani::cover!(len > 0 && len < CAP && c.m.len == len);
        kani::cover!(len > CAP);
    } else {
        c.rb.clear();
        c.m.len = 0;
    }
    finish(c);
}

fn bound(kind: u8, v: usize) -> Bound<usize> {
    match kind {
        0 => Bound::Unbounded,
        1 => Bound::Included(v),
        _ => Bound::Excluded(v),
    }
}

/// Model of the half-open range [start, end) a (Bound, Bound) pair denotes;
/// None if forming it overflows.
fn model_range(sk: u8, sv: usize, ek: u8, ev: usize, len: usize) -> Option<(usize, usize)> {
    let start = match sk {
        0 => 0,
        1 => sv,
        _ => sv.checked_add(1)?,
    };
    let end = match ek {
        0 => len,
        1 => ev.checked_add(1)?,
        _ => ev,
    };
    Some((start, end))
}

//@ prop: C15
//@ tier: quick
//@ what: ReadBuf::remove(range) for all nine bound forms with arbitrary usize endpoints, VALID ranges: result equals Vec::drain(range) on the model (tail shifted down, length reduced), no panic, slot/neighbours/release unaffected
//@ bound: 2 slots x 4 bytes; slot/fill/contents symbolic; both bounds symbolic (Unbounded/Included/Excluded, value any usize) subject to start <= end <= len
//@ encodes: io::ReadBuf::remove; io::read_buf::change_size
#[kani::proof]
#[kani::unwind(10)]
fn c15_remove_valid() {
    let mut c = any_case();
    let (sk, ek): (u8, u8) = (kani::any(), kani::any());
    kani::assume(sk < 3 && ek < 3);
    let (sv, ev): (usize, usize) = (kani::any(), kani::any());
    let r = model_range(sk, sv, ek, ev, c.m.len);
    kani::assume(r.is_some());
    let (start, end) = r.unwrap();
    kani::assume(start <= end && end <= c.m.len);
    c.rb.remove((bound(sk, sv), bound(ek, ev)));
    // model: drain [start, end)
    let removed = end - start;
    let mut i = start;
    while i + removed < c.m.len {
        c.m.bytes[i] = c.m.bytes[i + removed];
        i += 1;
    }
    c.m.len -= removed;
    kani::cover!(start > 0 && end < CAP && removed > 0 && c.m.len > start, "middle removed, tail shifted");
    kani::cover!(removed == 0);
    kani::cover!(sk == 2 && ek == 1);
    finish(c);
}

//@ prop: C15
//@ tier: quick
//@ what: ReadBuf::remove(range), INVALID ranges (start > end, end > len, or a bound that overflows usize): the call must not return normally (it is rejected by one of remove's own panics) and in particular must not modify anything first
//@ bound: 2 slots x 4 bytes; both bounds symbolic with arbitrary usize endpoints, restricted to invalid ranges
//@ encodes: io::ReadBuf::remove
//@ allow_fail: slice index starts at; range end index; attempting to remove range from empty buffer; attempted to index slice (from after|up to) maximum usize
//@ must_fail: slice index starts at; range end index
#[kani::proof]
#[kani::unwind(10)]
fn c15_remove_invalid() {
    let mut c = any_case();
    let (sk, ek): (u8, u8) = (kani::any(), kani::any());
    kani::assume(sk < 3 && ek < 3);
    let (sv, ev): (usize, usize) = (kani::any(), kani::any());
    let r = model_range(sk, sv, ek, ev, c.m.len);
    let invalid = match r {
        None => true,
        Some((start, end)) => start > end || end > c.m.len,
    };
    kani::assume(invalid);
    kani::cover!(r.is_none(), "bound overflows usize");
    kani::cover!(r.is_some());
    c.rb.remove((bound(sk, sv), bound(ek, ev)));
    // Only reachable if remove returned normally.
    assert!(false, "invalid range accepted by ReadBuf::remove");
}

//@ prop: C15
//@ tier: quick
//@ what: ReadBuf::extend_from_slice: appended iff it fits the capacity (Ok), otherwise Err and nothing changes; set_len(new_len <= capacity); spare_capacity_mut is exactly [base+len, base+capacity)
//@ bound: 2 slots x 4 bytes; appended slice 0..=5 symbolic bytes; new_len 0..=4
//@ encodes: io::ReadBuf::{extend_from_slice,set_len,spare_capacity_mut}
#[kani::proof]
#[kani::unwind(10)]
fn c15_extend_setlen_spare() {
    let mut c = any_case();
    let which: u8 = kani::any();
    kani::assume(which < 3);
    if which == 0 {
        let src: [u8; 5] = kani::any();
        let sl: usize = kani::any();
        kani::assume(sl <= 5);
        let r = c.rb.extend_from_slice(&src[..sl]);
        if c.m.len + sl <= CAP {
            assert!(r.is_ok(), "fits: appended");
            let mut i = 0;
            while i < sl {
                c.m.bytes[c.m.len + i] = src[i];
                i += 1;
            }
            c.m.len += sl;
        } else {
            assert!(r.is_err(), "growth beyond capacity refused");
        }
        kani::cover!(r.is_ok() && sl > 0 && c.m.len == CAP);
        kani::cover!(r.is_err());
    } else if which == 1 {
        let new_len: usize = kani::any();
        kani::assume(new_len <= CAP);
        // contract: the first new_len bytes are initialised (they are: the
        // whole slot was written by the rig) -- make the model agree on them
        let mut i = c.m.len;
        while i < new_len {
            c.m.bytes[i] = unsafe { c.rig.base(c.id).add(i).read() };
            i += 1;
        }
        unsafe { c.rb.set_len(new_len) };
        c.m.len = new_len;
        kani::cover!(new_len == CAP);
    } else {
        let len = c.m.len;
        let base = c.rig.base(c.id);
        let spare = c.rb.spare_capacity_mut();
        assert!(spare.len() == CAP - len);
        assert!(spare.as_ptr().cast::<u8>() == unsafe { base.add(len) }.cast_const());
        kani::cover!(len == CAP);
    }
    finish(c);
}

//@ prop: C15 C14
//@ tier: quick
//@ what: ReadBuf as BufMut/Buf once it owns a slot (second read into the same buffer): parts_mut/parts(Buf variant)/spare_capacity/has_spare_capacity agree and stay inside the slot, set_init(n) and buffer_init(_, n) append n, Buf::parts == (base, len)
//@ bound: 2 slots x 4 bytes; n <= spare
//@ encodes: <io::ReadBuf as BufMut>::{parts_mut,set_init,spare_capacity,has_spare_capacity,parts,buffer_init}; <io::ReadBuf as Buf>::parts
#[kani::proof]
#[kani::unwind(10)]
fn c15_bufmut_second_read() {
    let mut c = any_case();
    let base = c.rig.base(c.id);
    let len = c.m.len;
    let (p, l) = unsafe { c.rb.parts_mut() };
    assert!(p == unsafe { base.add(len) } && l as usize == CAP - len);
    assert!(c.rb.spare_capacity() == l);
    assert!(c.rb.has_spare_capacity() == (l != 0));
    match BufMut::parts(&mut c.rb) {
        BufMutParts::Buf { ptr, len: l2 } => assert!(ptr == p && l2 == l),
        BufMutParts::Pool(_) => assert!(false, "an assigned buffer must not ask the kernel for another one"),
    }
    let (bp, bl) = unsafe { Buf::parts(&c.rb) };
    assert!(bp == base.cast_const() && bl as usize == len);
    let n: usize = kani::any();
    kani::assume(n <= l as usize);
    let fill: [u8; CAP] = kani::any();
    let mut i = 0;
    while i < n {
        unsafe { p.add(i).write(fill[i]) };
        c.m.bytes[len + i] = fill[i];
        i += 1;
    }
    if kani::any() {
        unsafe { c.rb.set_init(n) };
    } else {
        unsafe { c.rb.buffer_init(BufId(0), n as u32) };
    }
    c.m.len += n;
    kani::cover!(n > 0 && c.m.len == CAP);
    finish(c);
}

// ---------------------------------------------------------------------------
// C08: pool conservation (step harnesses)
// ---------------------------------------------------------------------------

//@ prop: C08 C15
//@ tier: quick
//@ what: an unassigned ReadBuf asks the kernel to pick a buffer from its pool's group (parts == Pool(group id)), exposes nothing, and release/drop of it gives nothing back
//@ bound: 2 slots x 4 bytes
//@ encodes: <io::ReadBuf as BufMut>::parts; io::ReadBuf::parts_sys; io::ReadBuf::release
#[kani::proof]
#[kani::unwind(10)]
fn c08_unassigned_buffer() {
    let rig = rig();
    let tail0 = rig.tail();
    let mut rb = ReadBuf { shared: rig.pool.clone(), owned: None };
    match BufMut::parts(&mut rb) {
        BufMutParts::Pool(super::PoolBufParts(gid)) => assert!(gid == 7),
        BufMutParts::Buf { .. } => assert!(false, "unassigned buffer must let the kernel select"),
    }
    let (p, l) = unsafe { rb.parts_mut() };
    assert!(p.is_null() && l == 0);
    assert!(rb.len() == 0 && rb.is_empty() && rb.spare_capacity() == 0 && !rb.has_spare_capacity());
    rb.release();
    drop(rb);
    assert!(rig.tail() == tail0, "nothing given back");
    assert!(rig.canaries_intact(POOL as u16));
    kani::cover!(true);
    std::mem::forget(rig.pool);
}

//@ prop: C08
//@ tier: quick
//@ what: conservation step: from ANY 16-bit ring tail, with one buffer held by the kernel-side ring and the other owned, init_buffer(id,n) yields exactly slot id ([base+id*size, +n)), and dropping the ReadBuf writes exactly that slot's (addr,len,bid) at ring index tail & mask and advances the tail by one (wrapping at 65536); the other ring entry is untouched
//@ bound: pool sizes 2; buf_size 4; tail any u16 (incl. 65535); id, n symbolic
//@ encodes: io_uring::io::ReadBufPool::{init_buffer,release,ring_tail}; <io::ReadBuf as Drop>::drop
#[kani::proof]
#[kani::unwind(10)]
fn c08_release_step() {
    let rig = rig();
    let tail0 = rig.tail();
    // ring entries hold markers so that an overwrite of the wrong entry shows
    unsafe {
        rig.ring.cast::<u64>().write(0x1111);
        rig.ring.add(16).cast::<u64>().write(0x2222);
    }
    let id: u16 = kani::any();
    kani::assume((id as usize) < POOL);
    let n: u32 = kani::any();
    kani::assume(n as usize <= CAP);
    let slice = unsafe { rig.pool.init_buffer(BufId(id), n) };
    assert!(slice.cast::<u8>().as_ptr() == rig.base(id) && slice.len() == n as usize);
    let rb = ReadBuf { shared: rig.pool.clone(), owned: Some(slice) };
    drop(rb);
    let idx = (tail0 & 1) as usize;
    let (addr, len, bid) = rig.entry(idx);
    assert!(addr == rig.base(id).addr() as u64 && len == CAP as u32 && bid == id, "exactly its own buffer is given back");
    assert!(rig.tail() == tail0.wrapping_add(1), "tail advanced by one");
    let other = rig.entry(1 - idx);
    assert!(other.0 == if idx == 0 { 0x2222 } else { 0x1111 }, "other ring entry untouched");
    kani::cover!(tail0 == u16::MAX, "16-bit tail wraps");
    kani::cover!(idx == 0 && id == 1);
    std::mem::forget(rig.pool);
}
//@ prop: C08
//@ tier: quick
//@ what: the same conservation step for buffer sizes that are NOT a power of two (and 1, 2, 4): init_buffer(id) is [base + id*buf_size, +n) and releasing it publishes (that address, buf_size, bid == id) -- the buffer id computed from the address is the id the kernel was given at registration, so the kernel's next choice of `bid` maps back to the slot it wrote into
//@ bound: pool size 2; buf_size symbolic in 1..=4 (3 included); tail any u16; id, n symbolic
//@ encodes: io_uring::io::ReadBufPool::{init_buffer,release,ring_tail}; <io::ReadBuf as Drop>::drop
#[kani::proof]
#[kani::unwind(10)]
fn c08_release_step_any_size() {
    let size: u32 = kani::any();
    kani::assume(size >= 1 && size as usize <= CAP);
    let rig = rig_sized(POOL as u16, kani::any(), size);
    let tail0 = rig.tail();
    let id: u16 = kani::any();
    kani::assume((id as usize) < POOL);
    let n: u32 = kani::any();
    kani::assume(n <= size);
    let slice = unsafe { rig.pool.init_buffer(BufId(id), n) };
    let base = unsafe { rig.bufs.add(id as usize * size as usize) };
    assert!(slice.cast::<u8>().as_ptr() == base && slice.len() == n as usize);
    let rb = ReadBuf { shared: rig.pool.clone(), owned: Some(slice) };
    drop(rb);
    let (addr, len, bid) = rig.entry((tail0 & 1) as usize);
    assert!(addr == base.addr() as u64 && len == size && bid == id, "exactly its own buffer is given back under its own id");
    assert!(rig.tail() == tail0.wrapping_add(1), "tail advanced by one");
    kani::cover!(size == 3 && id == 1, "non power of two size");
    kani::cover!(size == 1 && id == 1);
    std::mem::forget(rig.pool);
}

//@ prop: C08
//@ tier: quick
//@ what: two owned buffers released one after the other (any order, any tail): two distinct ring entries, each with its own id, tail + 2; a released buffer's slot is never given back twice
//@ bound: pool size 2; tail any u16; release order symbolic
//@ encodes: io_uring::io::ReadBufPool::release; io::ReadBuf::release
#[kani::proof]
#[kani::unwind(10)]
fn c08_release_two() {
    let rig = rig();
    let tail0 = rig.tail();
    let content: [u8; CAP] = kani::any();
    let mut a = rig.filled(0, 1, &content);
    let mut b = rig.filled(1, 2, &content);
    assert!(a.as_ptr() != b.as_ptr(), "two owners never share a slot");
    if kani::any() {
        a.release();
        b.release();
    } else {
        b.release();
        a.release();
    }
    a.release();
    drop(a);
    drop(b);
    assert!(rig.tail() == tail0.wrapping_add(2));
    let e0 = rig.entry((tail0 & 1) as usize);
    let e1 = rig.entry((tail0.wrapping_add(1) & 1) as usize);
    assert!(e0.2 != e1.2 && e0.2 < 2 && e1.2 < 2, "each buffer given back exactly once");
    assert!(e0.0 == rig.base(e0.2).addr() as u64 && e1.0 == rig.base(e1.2).addr() as u64);
    kani::cover!(tail0 == u16::MAX);
    std::mem::forget(rig.pool);
}


//@ prop: C08 C02
//@ tier: quick
//@ what: the buffer the kernel chose is decoded from the completion flags: multishot read/recv map_next and single-shot read/recv map_ok turn (flags, n) into an owned slice [base + id*size, +n) of exactly the selected buffer iff IORING_CQE_F_BUFFER is set (id = flags >> 16); without the flag an empty, unassigned buffer results and nothing is owned
//@ bound: pool 2x4; id in 0..2, n in 0..=4, other flag bits symbolic
//@ encodes: <io_uring::io::MultishotReadOp as FdIter>::map_next; <io_uring::net::MultishotRecvOp as FdIter>::map_next; <io_uring::io::ReadOp as FdOp>::map_ok; io_uring::op::CompletionFlags::buf_id; io::ReadBufPool::new_buffer
//@ stubs: crate::lock -> try_lock model; <core::io::CustomOwner as Drop>::drop -> no-op
#[kani::proof]
#[kani::unwind(3)]
#[kani::stub(crate::lock, crate::verif_stubs::lock_model)]
#[kani::stub(<core::io::CustomOwner as core::ops::Drop>::drop, crate::verif_stubs::custom_owner_drop_noop)]
fn c08_buffer_id_decode() {
    use crate::io_uring::op::{FdIter, FdOp, verif_opsup as ops};
    use std::mem::ManuallyDrop;
    let rig = rig_with(POOL as u16, 0);
    let sq = SubmissionQueue(crate::io_uring::sq::verif_c04::submissions_in_place(2, false, false));
    let fd = ManuallyDrop::new(unsafe { crate::AsyncFd::from_raw(5, crate::fd::Kind::File, sq.clone()) });
    let id: u16 = kani::any();
    kani::assume((id as usize) < POOL);
    let n: u32 = kani::any();
    kani::assume(n as usize <= CAP);
    let has_buffer: bool = kani::any();
    let other: u32 = kani::any();
    let flags = (other & 0xfffe & !libc::IORING_CQE_F_BUFFER) | if has_buffer { libc::IORING_CQE_F_BUFFER | (u32::from(id) << 16) } else { 0 };
    kani::assume(has_buffer || n == 0); // without a buffer the kernel transferred nothing
    let ret = (ops::completion_flags(flags), n);
    let pool = crate::io::ReadBufPool { shared: rig.pool.clone() };
    let which: u8 = kani::any();
    kani::assume(which < 3);
    let rb = match which {
        0 => <super::MultishotReadOp as FdIter>::map_next(&fd, &pool, ret),
        1 => <crate::io_uring::net::MultishotRecvOp as FdIter>::map_next(&fd, &pool, ret),
        _ => <super::ReadOp<ReadBuf> as FdOp>::map_ok(&fd, pool.get(), ret),
    };
    if has_buffer {
        assert!(rb.owned.is_some(), "owns the selected buffer");
        assert!(rb.as_ptr() == rig.base(id).cast_const() && rb.len() == n as usize, "exactly the selected slot, n bytes");
    } else {
        assert!(rb.owned.is_none() && rb.len() == 0, "no buffer selected: nothing owned");
    }
    kani::cover!(has_buffer && id == 1 && n == 4);
    kani::cover!(!has_buffer);
    kani::cover!(which == 2 && has_buffer);
    std::mem::forget(rb);
    std::mem::forget(pool);
    std::mem::forget(sq);
    std::mem::forget(rig.pool);
}

// ===========================================================================
// C08 / C12: ReadBufPool::new (initial registration) and its Drop.
// ===========================================================================

fn page_size_model() -> usize {
    4096
}

static mut POOL_REG_CALLS: crate::verif_stubs::V<u32> = crate::verif_stubs::V::new(0);
static mut POOL_REG_OPS: crate::verif_stubs::V<[u32; 2]> = crate::verif_stubs::V::new([0; 2]);
static mut POOL_REG_RING_ADDR: crate::verif_stubs::V<u64> = crate::verif_stubs::V::new(0);
static mut POOL_REG_ENTRIES: crate::verif_stubs::V<u32> = crate::verif_stubs::V::new(0);
static mut POOL_REG_BGID: crate::verif_stubs::V<[u16; 2]> = crate::verif_stubs::V::new([0xffff; 2]);
static mut POOL_REG_FAILS: crate::verif_stubs::V<bool> = crate::verif_stubs::V::new(false);

unsafe fn pool_register(_fd: libc::c_int, op: libc::c_uint, arg: *const libc::c_void, nr: libc::c_uint) -> libc::c_int {
    unsafe {
        let i = POOL_REG_CALLS.v as usize;
        POOL_REG_CALLS.v = (i + 1) as u32;
        let reg = &*arg.cast::<libc::io_uring_buf_reg>();
        if i < 2 {
            POOL_REG_OPS.v[i] = op;
            POOL_REG_BGID.v[i] = reg.bgid;
        }
        assert!(nr == 1);
        if op == libc::IORING_REGISTER_PBUF_RING {
            POOL_REG_RING_ADDR.v = reg.ring_addr;
            POOL_REG_ENTRIES.v = reg.ring_entries;
            if POOL_REG_FAILS.v {
                *libc::__errno_location() = libc::ENOMEM;
                return -1;
            }
        }
    }
    0
}

//@ prop: C08 C12
//@ tier: quick
//@ what: ReadBufPool::new registers a buffer ring of pool_size entries under a fresh group id, then offers EVERY buffer exactly once: entry i = (base + i*buf_size, buf_size, bid i), tail = pool_size, tail mask = pool_size-1, buffer group = the registered id; dropping the pool unregisters exactly that group id and frees both allocations with the layouts they were allocated with (CBMC checks the deallocations); a refused registration returns the error and leaves nothing allocated or registered
//@ bound: pool_size 2, buf_size symbolic in 1..=6 (incl. non powers of two); registration succeeds or fails (symbolic); page size 4096
//@ encodes: io_uring::io::ReadBufPool::{new,ring_tail}; <io_uring::io::ReadBufPool as Drop>::drop; alloc_layout_ring; alloc_layout_buffers
//@ stubs: io_uring::io::page_size (sysconf FFI) -> 4096; crate::lock -> try_lock model; <core::io::CustomOwner as Drop>::drop -> no-op
#[kani::proof]
#[kani::unwind(4)]
#[kani::stub(super::page_size, page_size_model)]
#[kani::stub(crate::lock, crate::verif_stubs::lock_model)]
#[kani::stub(<core::io::CustomOwner as core::ops::Drop>::drop, crate::verif_stubs::custom_owner_drop_noop)]
fn c08_pool_new_and_drop() {
    let mut t = k::base_table();
    t.io_uring_register = Some(pool_register);
    k::install(t);
    k::sq_set(0, 0);
    let sq = SubmissionQueue(crate::io_uring::sq::verif_c04::submissions_in_place(2, false, false));
    let buf_size: u32 = kani::any();
    kani::assume(buf_size >= 1 && buf_size <= 6);
    let fails: bool = kani::any();
    unsafe {
        POOL_REG_CALLS.v = 0;
        POOL_REG_FAILS.v = fails;
    }
    let r = ReadBufPool::new(sq.clone(), 2, buf_size);
    assert!(r.is_ok() == !fails);
    unsafe {
        assert!(POOL_REG_CALLS.v == 1 && POOL_REG_OPS.v[0] == libc::IORING_REGISTER_PBUF_RING && POOL_REG_ENTRIES.v == 2);
    }
    if let Ok(pool) = r {
        unsafe {
            assert!(pool.id == POOL_REG_BGID.v[0], "the pool's buffer group is the registered one");
            assert!(pool.ring_addr as u64 == POOL_REG_RING_ADDR.v, "the ring the kernel was told about");
        }
        assert!(pool.pool_size == 2 && pool.buf_size == buf_size && pool.tail_mask == 1);
        let ring = pool.ring_addr.cast::<u8>();
        let entry = |i: usize| unsafe {
            let e = ring.add(i * 16);
            (e.cast::<u64>().read(), e.add(8).cast::<u32>().read(), e.add(12).cast::<u16>().read())
        };
        let e0 = entry(0);
        let e1 = entry(1);
        assert!(e0.0 == pool.bufs_addr as u64 && e0.1 == buf_size && e0.2 == 0, "buffer 0 offered under id 0");
        assert!(e1.0 == pool.bufs_addr as u64 + u64::from(buf_size) && e1.1 == buf_size && e1.2 == 1, "buffer 1 offered under id 1");
        // the 16-bit tail shares the last two bytes of entry 0 (io_uring_buf_ring ABI)
        assert!(unsafe { ring.add(14).cast::<u16>().read() } == 2, "tail = pool size: every buffer offered once");
        let id = pool.id;
        drop(pool);
        unsafe {
            assert!(POOL_REG_CALLS.v == 2 && POOL_REG_OPS.v[1] == libc::IORING_UNREGISTER_PBUF_RING && POOL_REG_BGID.v[1] == id, "dropping unregisters exactly this group");
        }
    }
    kani::cover!(!fails && buf_size == 3);
    kani::cover!(fails);
    std::mem::forget(sq);
}

//@ prop: C08
//@ tier: quick
//@ what: ReadBufPool::new for a pool with more than 256 buffers: entries 255, 256, 300 and the last one are offered under their OWN 16-bit id (i), at base + i*buf_size -- buffer ids are not truncated to 8 bits -- and the tail is the pool size
//@ bound: pool_size 512, buf_size 1; four entries inspected (the fill loop runs 512 times)
//@ encodes: io_uring::io::ReadBufPool::new (fill loop)
//@ stubs: io_uring::io::page_size (sysconf FFI) -> 4096; crate::lock -> try_lock model; <core::io::CustomOwner as Drop>::drop -> no-op
//@ timeout: 1500
#[kani::proof]
#[kani::unwind(514)]
#[kani::stub(super::page_size, page_size_model)]
#[kani::stub(crate::lock, crate::verif_stubs::lock_model)]
#[kani::stub(<core::io::CustomOwner as core::ops::Drop>::drop, crate::verif_stubs::custom_owner_drop_noop)]
fn c08_pool_new_large() {
    let mut t = k::base_table();
    t.io_uring_register = Some(pool_register);
    k::install(t);
    k::sq_set(0, 0);
    let sq = SubmissionQueue(crate::io_uring::sq::verif_c04::submissions_in_place(2, false, false));
    unsafe {
        POOL_REG_CALLS.v = 0;
        POOL_REG_FAILS.v = false;
    }
    let pool = match ReadBufPool::new(sq.clone(), 512, 1) {
        Ok(p) => p,
        Err(e) => {
            std::mem::forget(e);
            assert!(false, "registration succeeds");
            return;
        }
    };
    let ring = pool.ring_addr.cast::<u8>();
    let entry = |i: usize| unsafe {
        let e = ring.add(i * 16);
        (e.cast::<u64>().read(), e.add(8).cast::<u32>().read(), e.add(12).cast::<u16>().read())
    };
    let base = pool.bufs_addr as u64;
    assert!(entry(255) == (base + 255, 1, 255));
    assert!(entry(256) == (base + 256, 1, 256), "buffer 256 offered under id 256");
    assert!(entry(300) == (base + 300, 1, 300));
    assert!(entry(511) == (base + 511, 1, 511), "the last buffer is offered too");
    assert!(unsafe { ring.add(14).cast::<u16>().read() } == 512, "tail = pool size");
    assert!(pool.tail_mask == 511);
    kani::cover!(true);
    std::mem::forget(pool);
    std::mem::forget(sq);
}
