//@@ attach: src/io_uring/sq.rs
//! C04: submission queue integrity (concurrent submitters at lock granularity,
//! kernel consumption, 32-bit counter wrap-around).
#![allow(dead_code, unused_imports, static_mut_refs, clippy::all, clippy::pedantic)]

use std::sync::Arc;

use super::{QueueFull, Submission, Submissions};
use crate::io_uring::verif_hooks;
use crate::io_uring::verif_kernel as k;
use crate::io_uring::{Shared, libc};

const OURS: u64 = 0xBEEF_0000_0000_0001;
const OTHER: u64 = 0xC0DE_0000_0000_0000;

struct Env {
    active: bool,
    len: u32,
    shared: *const Shared,
    /// What each slot's user_data must be (ghost copy).
    expected: [u64; k::MAX_ENTRIES],
    others_published: u32,
    kernel_consumed: u32,
    /// Set when the other submitter wrote a slot that was not free.
    env_error: bool,
    /// see verif_stubs::V
    magic: u64,
}

static mut ENV: Env = Env {
    active: false,
    len: 0,
    shared: std::ptr::null(),
    expected: [0; k::MAX_ENTRIES],
    others_published: 0,
    kernel_consumed: 0,
    env_error: false,
    magic: 0x5EED_A10C_0000_0004,
};

/// One environment step, run at every yield point (before a lock is taken,
/// before a kernel-shared word is loaded): the kernel consumes any number of
/// published entries, and -- only while our thread does not hold the
/// submission lock -- another submitter runs one complete, correct `add`.
fn env_step(_kind: u32) {
    let env = unsafe { &mut ENV };
    if !env.active {
        return;
    }
    let shared = unsafe { &*env.shared };
    let mut head = k::sq_head();
    let mut tail = k::sq_tail();
    // Kernel consumes c <= pending entries.
    let pending = tail.wrapping_sub(head);
    let c: u32 = kani::any();
    kani::assume(c <= pending);
    head = head.wrapping_add(c);
    env.kernel_consumed += c;
    k::sq_mem().head.store(head, std::sync::atomic::Ordering::Relaxed);
    // Another submitter (a correct one) publishes one entry if it can get the
    // lock and there is room.
    let publish: bool = kani::any();
    if publish {
        if let Ok(guard) = shared.submissions_lock.try_lock() {
            if tail.wrapping_sub(head) < env.len {
                let idx = (tail & (env.len - 1)) as usize;
                let ud = OTHER | u64::from(tail);
                k::sqe(idx).user_data = ud;
                env.expected[idx] = ud;
                tail = tail.wrapping_add(1);
                k::sq_mem().tail.store(tail, std::sync::atomic::Ordering::Relaxed);
                env.others_published += 1;
            }
            drop(guard);
        }
    }
}

fn setup(len: u32) -> (Submissions, u32, u32) {
    let head: u32 = kani::any();
    let tail: u32 = kani::any();
    // Representation invariant of the ring: 0 <= tail - head <= len (wrapping).
    kani::assume(tail.wrapping_sub(head) <= len);
    k::sq_set(head, tail);
    let env = unsafe { &mut ENV };
    let mut i = 0;
    while i < k::MAX_ENTRIES {
        let ud = 0xA0 + i as u64;
        k::sqe(i).user_data = ud;
        // Stale garbage in the other fields: `add` must reset the slot.
        k::sqe(i).fd = 0x55;
        k::sqe(i).len = 0x66;
        env.expected[i] = ud;
        i += 1;
    }
    let mut table = k::base_table();
    table.yield_point = Some(env_step);
    k::install(table);
    let sq = Submissions::new(k::build_shared(len, false, false));
    env.len = len;
    env.shared = Arc::as_ptr(&sq.shared);
    env.others_published = 0;
    env.kernel_consumed = 0;
    (sq, head, tail)
}

fn sq_add_step(len: u32, interference: bool) -> (bool, u32, u32) {
    let (sq, head0, tail0) = setup(len);
    let env = unsafe { &mut ENV };
    env.active = interference;
    let mut head_at_write = 0u32;
    let mut tail_at_write = 0u32;
    let mut wrote = false;
    let res = sq.add(|submission| {
        head_at_write = k::sq_head();
        tail_at_write = k::sq_tail();
        wrote = true;
        submission.0.opcode = libc::IORING_OP_NOP as u8 + 1;
        submission.0.fd = 7;
        submission.0.user_data = OURS;
    });
    env.active = false;
    let tail1 = k::sq_tail();
    let mask = len - 1;
    match res {
        Ok(()) => {
            assert!(wrote);
            // The slot written must have been free (not yet consumed entries
            // [head, tail) may not include it).
            assert!(
                tail_at_write.wrapping_sub(head_at_write) < len,
                "overrun: a slot the kernel has not consumed yet was overwritten"
            );
            // Tail published after the write, advanced by exactly one.
            assert!(tail1 == tail_at_write.wrapping_add(1), "tail advanced by exactly one");
            let idx = (tail_at_write & mask) as usize;
            let got = k::sqe_view(k::sqe(idx));
            let mut want = k::ZERO_SQE;
            want.opcode = 1;
            want.fd = 7;
            want.user_data = OURS;
            assert!(got == want, "entry is exactly what was filled in after reset");
            env.expected[idx] = OURS;
        }
        Err(QueueFull) => {
            assert!(!wrote);
            assert!(tail1 == tail0.wrapping_add(env.others_published));
            if env.others_published == 0 && env.kernel_consumed == 0 {
                assert!(tail0.wrapping_sub(head0) == len, "QueueFull only when the queue is full");
            }
        }
    }
    // No slot other than the ones legitimately written changed.
    let mut i = 0;
    while i < k::MAX_ENTRIES {
        assert!(k::sqe(i).user_data == env.expected[i], "only the reserved slot is written");
        i += 1;
    }
    // Never more published-but-unconsumed entries than the ring holds.
    assert!(tail1.wrapping_sub(k::sq_head()) <= len, "ring invariant 0 <= tail-head <= len");
    kani::cover!(res.is_ok());
    kani::cover!(res.is_err());
    kani::cover!(res.is_ok() && tail1 < tail0, "accepted across the u32 wrap of the tail");
    kani::cover!(res.is_ok() && tail_at_write < head_at_write, "accepted while tail has wrapped and head has not");
    let out = (res.is_ok(), env.others_published, env.kernel_consumed);
    std::mem::forget(sq);
    out
}

//@ prop: C04
//@ tier: quick
//@ what: one Submissions::add from ANY ring state (head, tail arbitrary u32, 0 <= tail-head <= len wrapping), no interference: slot free when written, only that slot written, entry == reset + fill, tail+1; QueueFull iff full
//@ bound: len in {1,2,4,8}; head/tail any u32; 1 add
//@ encodes: io_uring::sq::Submissions::add; io_uring::Shared::unsubmitted_submissions; io_uring::sq::Submission::reset; io_uring::load_kernel_shared; lock
#[kani::proof]
#[kani::unwind(10)]
fn c04_sq_add_alone() {
    let sel: u8 = kani::any();
    kani::assume(sel < 4);
    let len = 1u32 << sel;
    sq_add_step(len, false);
}

//@ prop: C04
//@ tier: quick
//@ what: one Submissions::add with interference at every yield point: the kernel consumes any number of entries before each load, another (correct) submitter publishes an entry whenever our thread does not hold the lock (between the unlocked fullness check and the lock in particular)
//@ bound: len in {1,2,4}; head/tail any u32; 1 add + up to 5 environment steps (each: kernel consumes 0..pending, other submitter publishes 0..1)
//@ encodes: io_uring::sq::Submissions::add; io_uring::Shared::unsubmitted_submissions; io_uring::load_kernel_shared; lock
//@ assumes: thread interleavings at lock granularity only (DESIGN 2.3); the other submitter and the kernel follow the io_uring protocol
#[kani::proof]
#[kani::unwind(10)]
fn c04_sq_add_interference() {
    let sel: u8 = kani::any();
    kani::assume(sel < 3);
    let len = 1u32 << sel;
    let (ok, others, consumed) = sq_add_step(len, true);
    kani::cover!(ok && others > 0 && consumed > 0);
    kani::cover!(!ok && others > 0);
}

//@ prop: C04
//@ tier: thorough
//@ what: same as c04_sq_add_interference for an 8-entry ring
//@ bound: len = 8; head/tail any u32; 1 add + up to 5 environment steps
//@ encodes: io_uring::sq::Submissions::add
//@ assumes: thread interleavings at lock granularity only (DESIGN 2.3)
#[kani::proof]
#[kani::unwind(10)]
fn c04_sq_add_interference_8() {
    let (ok, others, consumed) = sq_add_step(8, true);
    kani::cover!(ok && others > 0 && consumed > 0);
    kani::cover!(!ok && others > 0);
}

//@ prop: C04
//@ tier: quick
//@ what: unsubmitted_submissions() == number of published-but-unconsumed entries for every head/tail, including after the 32-bit tail has wrapped and the head has not (this is the count io_uring_enter is given)
//@ bound: len in {1,2,4,8}; head/tail any u32 with 0 <= tail-head <= len (wrapping)
//@ encodes: io_uring::Shared::unsubmitted_submissions
#[kani::proof]
#[kani::unwind(10)]
fn c04_unsubmitted_count() {
    let sel: u8 = kani::any();
    kani::assume(sel < 4);
    let len = 1u32 << sel;
    let (sq, head, tail) = setup(len);
    let n = sq.shared().unsubmitted_submissions();
    assert!(n == tail.wrapping_sub(head), "count of unsubmitted entries is tail-head (wrapping)");
    assert!(n <= len);
    kani::cover!(tail < head && n > 0, "tail wrapped, head not");
    kani::cover!(n == len);
    std::mem::forget(sq);
}

//@ prop: C04
//@ tier: quick
//@ what: two adds back to back from any ring state (second submitter after the first, kernel consuming in between): the two entries land in consecutive distinct slots, both intact; the multiset of published entries equals the accepted ones
//@ bound: len in {1,2,4}; head/tail any u32; 2 adds, kernel may consume before each load
//@ encodes: io_uring::sq::Submissions::add
#[kani::proof]
#[kani::unwind(10)]
fn c04_two_adds() {
    let sel: u8 = kani::any();
    kani::assume(sel < 3);
    let len = 1u32 << sel;
    let (sq, _head0, tail0) = setup(len);
    let sq2 = sq.clone();
    let r1 = sq.add(|s| {
        s.0.opcode = 1;
        s.0.user_data = OURS;
    });
    // kernel consumes some
    let pending = k::sq_tail().wrapping_sub(k::sq_head());
    let c: u32 = kani::any();
    kani::assume(c <= pending);
    k::sq_mem().head.store(k::sq_head().wrapping_add(c), std::sync::atomic::Ordering::Relaxed);
    let head_mid = k::sq_head();
    let r2 = sq2.add(|s| {
        s.0.opcode = 1;
        s.0.user_data = OURS + 1;
    });
    let accepted = r1.is_ok() as u32 + r2.is_ok() as u32;
    assert!(k::sq_tail() == tail0.wrapping_add(accepted));
    let mask = len - 1;
    if r1.is_ok() && r2.is_ok() {
        let i1 = (tail0 & mask) as usize;
        let i2 = (tail0.wrapping_add(1) & mask) as usize;
        assert!(k::sqe(i2).user_data == OURS + 1);
        // first entry still intact unless the kernel consumed it before the
        // second was written into the same slot (len == 1)
        if i1 != i2 {
            assert!(k::sqe(i1).user_data == OURS);
        } else {
            assert!(tail0.wrapping_add(1).wrapping_sub(head_mid) < len, "first entry was consumed before its slot was reused");
        }
    }
    assert!(k::sq_tail().wrapping_sub(k::sq_head()) <= len);
    kani::cover!(r1.is_ok() && r2.is_ok());
    kani::cover!(r1.is_ok() && r2.is_err());
    std::mem::forget(sq);
    std::mem::forget(sq2);
}

/// `Submissions` around an `Arc<Shared>` built in place (see kernel.rs).
pub(crate) fn submissions_in_place(len: u32, kernel_thread: bool, single_issuer: bool) -> Submissions {
    Submissions { shared: k::build_shared_arc(len, kernel_thread, single_issuer) }
}

// ---------------------------------------------------------------------------
// C11: the glue around the polling-state handshake in Submissions::wake.
// ---------------------------------------------------------------------------

static mut WAKE_ENTERS: crate::verif_stubs::V<u32> = crate::verif_stubs::V::new(0);
static mut WAKE_ENTER_TAIL: crate::verif_stubs::V<u32> = crate::verif_stubs::V::new(0);
static mut WAKE_REG_CALLS: crate::verif_stubs::V<u32> = crate::verif_stubs::V::new(0);
static mut WAKE_REG_FD: crate::verif_stubs::V<i32> = crate::verif_stubs::V::new(0);
static mut WAKE_REG_OP: crate::verif_stubs::V<u32> = crate::verif_stubs::V::new(0);
static mut WAKE_REG_SQE: crate::verif_stubs::V<k::Sqe> = crate::verif_stubs::V::new(k::ZERO_SQE);

/// Kani stub for Shared::enter (its own behaviour: C03/C05): records that the
/// kernel was entered and what had been published by then, consumes everything.
fn wake_enter_stub(
    _s: &Shared,
    _min_complete: libc::c_uint,
    _flags: libc::c_uint,
    _timeout: Option<std::time::Duration>,
) -> std::io::Result<u32> {
    unsafe {
        WAKE_ENTERS.v += 1;
        WAKE_ENTER_TAIL.v = k::sq_tail();
    }
    k::sq_mem().head.store(k::sq_tail(), std::sync::atomic::Ordering::Relaxed);
    Ok(0)
}

unsafe fn wake_register(fd: libc::c_int, op: libc::c_uint, arg: *const libc::c_void, _nr: libc::c_uint) -> libc::c_int {
    unsafe {
        WAKE_REG_CALLS.v += 1;
        WAKE_REG_FD.v = fd;
        WAKE_REG_OP.v = op;
        WAKE_REG_SQE.v = k::sqe_view(&*arg.cast::<libc::io_uring_sqe>());
    }
    0
}

//@ prop: C11
//@ tier: quick
//@ what: SubmissionQueue::wake around the handshake: no poll in progress (also after the Ring is gone) -> only the flag is set, no submission, no system call; poll in progress -> exactly one MSG_RING submission addressed to the ring itself carrying the wake user_data, published BEFORE the kernel is entered to submit it (retried while the queue is full); single-issuer ring -> the message is sent synchronously with REGISTER_SEND_MSG_RING on fd -1 and nothing is queued
//@ bound: ring of 2 with 0..=2 free slots; polling yes/no; single-issuer yes/no
//@ encodes: io_uring::sq::Submissions::wake; PollingState::wake; io_uring::sq::Submissions::add
//@ stubs: io_uring::Shared::enter -> model (consumes the queue, records the call); crate::lock -> try_lock model; <core::io::CustomOwner as Drop>::drop -> no-op
#[kani::proof]
#[kani::unwind(4)]
#[kani::stub(crate::io_uring::Shared::enter, wake_enter_stub)]
#[kani::stub(crate::lock, crate::verif_stubs::lock_model)]
#[kani::stub(<core::io::CustomOwner as core::ops::Drop>::drop, crate::verif_stubs::custom_owner_drop_noop)]
fn c11_wake_glue() {
    let mut t = k::base_table();
    t.io_uring_register = Some(wake_register);
    k::install(t);
    let free: u32 = kani::any();
    kani::assume(free <= 2);
    k::sq_set(0, 2 - free);
    let single: bool = kani::any();
    let sq = submissions_in_place(2, false, single);
    let polling: bool = kani::any();
    if polling {
        sq.shared().polling.set_polling(true);
    }
    unsafe {
        WAKE_ENTERS.v = 0;
        WAKE_REG_CALLS.v = 0;
    }
    let tail0 = k::sq_tail();
    let r = sq.wake();
    assert!(r.is_ok());
    let mut want = k::ZERO_SQE;
    want.opcode = libc::IORING_OP_MSG_RING as u8;
    want.fd = k::RING_FD;
    want.off = 1;
    want.addr = u64::from(libc::IORING_MSG_DATA);
    want.user_data = 1;
    if !polling {
        assert!(k::sq_tail() == tail0 && unsafe { WAKE_ENTERS.v } == 0 && unsafe { WAKE_REG_CALLS.v } == 0, "nobody to wake: nothing submitted, no system call");
        // the flag is set, so the next poll does not block
        assert!(sq.shared().polling.set_polling(true), "the next poll sees the wake-up");
    } else if single {
        assert!(k::sq_tail() == tail0 && unsafe { WAKE_ENTERS.v } == 0, "single issuer: nothing queued from this thread");
        assert!(unsafe { WAKE_REG_CALLS.v } == 1 && unsafe { WAKE_REG_FD.v } == -1 && unsafe { WAKE_REG_OP.v } == libc::IORING_REGISTER_SEND_MSG_RING);
        assert!(unsafe { WAKE_REG_SQE.v } == want, "the wake message");
    } else {
        assert!(unsafe { WAKE_REG_CALLS.v } == 0);
        // full queue: first entry only drains it, second publishes the message
        let expected_enters = if free == 0 { 2 } else { 1 };
        assert!(unsafe { WAKE_ENTERS.v } == expected_enters, "kernel entered so that the message is really submitted");
        assert!(k::sq_tail() == tail0 + 1, "exactly one wake message");
        assert!(unsafe { WAKE_ENTER_TAIL.v } == tail0 + 1, "published before the kernel is entered");
        let e = k::sqe_view(k::sqe((tail0 & 1) as usize));
        assert!(e == want, "MSG_RING to the ring itself with the wake user_data");
    }
    kani::cover!(polling && !single && free == 0);
    kani::cover!(polling && single);
    kani::cover!(!polling);
    std::mem::forget(r);
    std::mem::forget(sq);
}
