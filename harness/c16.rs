//@@ attach: src/net.rs
//! C16: socket addresses round-trip through their kernel representation.
//!
//! Kernel model (trusted, from ip(7), ipv6(7), unix(7)):
//!  * AF_INET  : sockaddr_in, 16 bytes, reported length 16.
//!  * AF_INET6 : sockaddr_in6, 28 bytes, reported length 28.
//!  * AF_UNIX  : given (bytes, len): len == 2 -> unnamed; sun_path[0] == 0 ->
//!    abstract name = sun_path[1 .. len-2] (every byte significant);
//!    otherwise pathname = sun_path up to the first NUL within len.
//!    Reported back: unnamed -> len 2; abstract -> 2 + 1 + |name|;
//!    pathname -> 2 + |path| + 1 (terminating NUL included).
#![allow(dead_code, unused_imports, clippy::all, clippy::pedantic)]

use std::mem::{MaybeUninit, size_of};
use std::net::{Ipv4Addr, Ipv6Addr, SocketAddr, SocketAddrV4, SocketAddrV6};
use std::os::linux::net::SocketAddrExt;
use std::os::unix::ffi::OsStrExt;
use std::os::unix::net::SocketAddr as UnixAddr;

use super::{NoAddress, SocketAddress};

fn any_v4() -> SocketAddrV4 {
    let ip: [u8; 4] = kani::any();
    SocketAddrV4::new(Ipv4Addr::from(ip), kani::any())
}

fn any_v6() -> SocketAddrV6 {
    let ip: [u8; 16] = kani::any();
    SocketAddrV6::new(Ipv6Addr::from(ip), kani::any(), kani::any(), kani::any())
}

/// The kernel copies `len` bytes in, and later writes `len` bytes back into a
/// fresh (zeroed) storage.
fn kernel_echo<S>(storage: &S, ptr: *const libc::c_void, len: u32) -> MaybeUninit<S> {
    assert!(ptr == std::ptr::from_ref(storage).cast(), "pointer is the storage");
    assert!(len as usize <= size_of::<S>(), "length within the storage");
    let mut out: MaybeUninit<S> = MaybeUninit::zeroed();
    unsafe {
        std::ptr::copy_nonoverlapping(ptr.cast::<u8>(), out.as_mut_ptr().cast::<u8>(), len as usize);
    }
    out
}

//@ prop: C16 C13 C01
//@ tier: quick
//@ what: SocketAddrV4: into_storage -> as_ptr is exactly (storage, sizeof sockaddr_in), family AF_INET, sin_zero zero -> init of the echoed bytes == original; as_mut_ptr length == sizeof
//@ bound: all 2^32 addresses x 2^16 ports
//@ encodes: <SocketAddrV4 as SocketAddress>::{into_storage,as_ptr,as_mut_ptr,init}
#[kani::proof]
#[kani::unwind(30)]
fn c16_ipv4_roundtrip() {
    let a = any_v4();
    let s = a.into_storage();
    let (p, l) = unsafe { SocketAddrV4::as_ptr(&s) };
    assert!(l as usize == size_of::<libc::sockaddr_in>() && l == 16);
    assert!(s.sin_family == libc::AF_INET as libc::sa_family_t);
    assert!(u16::from_be(s.sin_port) == a.port());
    assert!(s.sin_addr.s_addr.to_ne_bytes() == a.ip().octets(), "address in network byte order");
    let mut echo = kernel_echo(&s, p, l);
    let (mp, ml) = unsafe { SocketAddrV4::as_mut_ptr(&mut echo) };
    assert!(mp == echo.as_mut_ptr().cast() && ml == 16);
    let b = unsafe { SocketAddrV4::init(echo, l) };
    assert!(a == b);
    kani::cover!(a.port() == 0x1234);
}

//@ prop: C16 C13 C01
//@ tier: quick
//@ what: SocketAddrV6: pair is exactly (storage, sizeof sockaddr_in6 = 28), family AF_INET6; ip, port, flowinfo and scope id survive the round trip
//@ bound: all addresses, ports, flow labels, scope ids
//@ encodes: <SocketAddrV6 as SocketAddress>::{into_storage,as_ptr,as_mut_ptr,init}
#[kani::proof]
#[kani::unwind(30)]
fn c16_ipv6_roundtrip() {
    let a = any_v6();
    let s = a.into_storage();
    let (p, l) = unsafe { SocketAddrV6::as_ptr(&s) };
    assert!(l as usize == size_of::<libc::sockaddr_in6>() && l == 28);
    assert!(s.sin6_family == libc::AF_INET6 as libc::sa_family_t);
    assert!(s.sin6_addr.s6_addr == a.ip().octets());
    let mut echo = kernel_echo(&s, p, l);
    let (mp, ml) = unsafe { SocketAddrV6::as_mut_ptr(&mut echo) };
    assert!(mp == echo.as_mut_ptr().cast() && ml == 28);
    let b = unsafe { SocketAddrV6::init(echo, l) };
    assert!(a == b);
    assert!(a.flowinfo() == b.flowinfo() && a.scope_id() == b.scope_id());
    kani::cover!(a.flowinfo() != 0 && a.scope_id() != 0);
}

//@ prop: C16 C13 C01
//@ tier: quick
//@ what: SocketAddr (either family): the length handed to the kernel is 16 for V4 and 28 for V6 (never the 28-byte storage for a V4 address), receive buffer is the full storage, and init with the length the kernel reports for that family restores the address
//@ bound: all V4 and V6 addresses
//@ encodes: <SocketAddr as SocketAddress>::{into_storage,as_ptr,as_mut_ptr,init}
#[kani::proof]
#[kani::unwind(30)]
fn c16_ip_either_roundtrip() {
    let a: SocketAddr = if kani::any() { SocketAddr::V4(any_v4()) } else { SocketAddr::V6(any_v6()) };
    let s = a.into_storage();
    let (p, l) = unsafe { SocketAddr::as_ptr(&s) };
    let want = if a.is_ipv4() { 16 } else { 28 };
    assert!(l == want, "length covers exactly the structure of the address family");
    let mut echo = kernel_echo(&s, p, l);
    let (mp, ml) = unsafe { SocketAddr::as_mut_ptr(&mut echo) };
    assert!(mp == echo.as_mut_ptr().cast() && ml == 28, "receive buffer is the whole storage");
    let b = unsafe { SocketAddr::init(echo, l) };
    assert!(a == b);
    kani::cover!(a.is_ipv4());
    kani::cover!(a.is_ipv6());
}

//@ prop: C16 C13
//@ tier: quick
//@ what: NoAddress hands the kernel a null pointer and length 0
//@ bound: single value
//@ encodes: <NoAddress as SocketAddress>
#[kani::proof]
fn c16_no_address() {
    let s = NoAddress.into_storage();
    let (p, l) = unsafe { NoAddress::as_ptr(&s) };
    assert!(p.is_null() && l == 0);
    let mut m = MaybeUninit::new(NoAddress);
    let (mp, ml) = unsafe { NoAddress::as_mut_ptr(&mut m) };
    assert!(mp.is_null() && ml == 0);
    let _ = unsafe { NoAddress::init(m, 0) };
    kani::cover!(true);
}

// ---------------------------------------------------------------------------
// Unix addresses
// ---------------------------------------------------------------------------

const SUN_PATH_OFFSET: usize = 2;
const SUN_LEN: usize = 110;
const NAME_MAX: usize = 4;

#[derive(Copy, Clone, PartialEq, Eq)]
enum Kind {
    Unnamed,
    Path,
    Abstract,
}

/// Reference representation of a Unix address: kind + name bytes.
#[derive(Copy, Clone)]
struct UnixModel {
    kind: Kind,
    len: usize,
    bytes: [u8; NAME_MAX],
}

fn model_of(a: &UnixAddr) -> UnixModel {
    let mut m = UnixModel { kind: Kind::Unnamed, len: 0, bytes: [0; NAME_MAX] };
    if let Some(p) = a.as_pathname() {
        let b = p.as_os_str().as_bytes();
        m.kind = Kind::Path;
        m.len = b.len();
        let mut i = 0;
        while i < NAME_MAX && i < b.len() {
            m.bytes[i] = b[i];
            i += 1;
        }
    } else if let Some(b) = a.as_abstract_name() {
        m.kind = Kind::Abstract;
        m.len = b.len();
        let mut i = 0;
        while i < NAME_MAX && i < b.len() {
            m.bytes[i] = b[i];
            i += 1;
        }
    }
    m
}

fn same(a: &UnixModel, b: &UnixModel) -> bool {
    if a.kind != b.kind || a.len != b.len {
        return false;
    }
    let mut i = 0;
    while i < NAME_MAX {
        if i < a.len && a.bytes[i] != b.bytes[i] {
            return false;
        }
        i += 1;
    }
    true
}

/// What the kernel understands when handed (storage, len) -- unix(7).
fn kernel_parse(raw: &[u8; SUN_LEN], len: usize) -> UnixModel {
    let mut m = UnixModel { kind: Kind::Unnamed, len: 0, bytes: [0; NAME_MAX] };
    if len <= SUN_PATH_OFFSET {
        return m;
    }
    if raw[SUN_PATH_OFFSET] == 0 {
        m.kind = Kind::Abstract;
        m.len = len - SUN_PATH_OFFSET - 1;
        let mut i = 0;
        while i < NAME_MAX && i < m.len {
            m.bytes[i] = raw[SUN_PATH_OFFSET + 1 + i];
            i += 1;
        }
    } else {
        m.kind = Kind::Path;
        // up to the first NUL within len
        let mut n = 0;
        while n < NAME_MAX + 1 && SUN_PATH_OFFSET + n < len && raw[SUN_PATH_OFFSET + n] != 0 {
            n += 1;
        }
        m.len = n;
        let mut i = 0;
        while i < NAME_MAX && i < n {
            m.bytes[i] = raw[SUN_PATH_OFFSET + i];
            i += 1;
        }
    }
    m
}

/// What the kernel writes back for an address it knows as `m`, and the length
/// it reports.
fn kernel_report(m: &UnixModel, with_nul: bool) -> ([u8; SUN_LEN], u32) {
    let mut raw = [0u8; SUN_LEN];
    let fam = (libc::AF_UNIX as u16).to_ne_bytes();
    raw[0] = fam[0];
    raw[1] = fam[1];
    let len = match m.kind {
        Kind::Unnamed => SUN_PATH_OFFSET,
        Kind::Abstract => {
            let mut i = 0;
            while i < NAME_MAX && i < m.len {
                raw[SUN_PATH_OFFSET + 1 + i] = m.bytes[i];
                i += 1;
            }
            SUN_PATH_OFFSET + 1 + m.len
        }
        Kind::Path => {
            let mut i = 0;
            while i < NAME_MAX && i < m.len {
                raw[SUN_PATH_OFFSET + i] = m.bytes[i];
                i += 1;
            }
            // unix(7): the returned length includes the terminating NUL,
            // except for a 108-byte unterminated path.
            SUN_PATH_OFFSET + m.len + if with_nul { 1 } else { 0 }
        }
    };
    (raw, len as u32)
}

fn unix_roundtrip(a: UnixAddr, with_nul: bool) {
    const _LAYOUT: () = assert!(size_of::<libc::sockaddr_un>() == SUN_LEN);
    let want = model_of(&a);
    let s = a.into_storage();
    let (p, l) = unsafe { <UnixAddr as SocketAddress>::as_ptr(&s) };
    assert!(p == std::ptr::from_ref(&s).cast(), "pointer is the storage");
    assert!(l as usize <= size_of::<<UnixAddr as SocketAddress>::Storage>());
    let mut raw = [0u8; SUN_LEN];
    unsafe { std::ptr::copy_nonoverlapping(p.cast::<u8>(), raw.as_mut_ptr(), SUN_LEN) };
    assert!(u16::from_ne_bytes([raw[0], raw[1]]) == libc::AF_UNIX as u16);
    // (1) the kernel understands the same address
    let seen = kernel_parse(&raw, l as usize);
    assert!(same(&seen, &want), "the kernel is handed the same address (kind, name, length)");
    // (2) what the kernel reports for it reads back as the same address
    let (back, blen) = kernel_report(&seen, with_nul);
    let mut echo: MaybeUninit<<UnixAddr as SocketAddress>::Storage> = MaybeUninit::zeroed();
    let (mp, ml) = unsafe { <UnixAddr as SocketAddress>::as_mut_ptr(&mut echo) };
    assert!(mp.cast::<u8>() == echo.as_mut_ptr().cast::<u8>(), "receive pointer is the storage");
    assert!(ml as usize >= SUN_LEN, "receive buffer holds a whole sockaddr_un");
    unsafe { std::ptr::copy_nonoverlapping(back.as_ptr(), mp.cast::<u8>(), blen as usize) };
    let b = unsafe { <UnixAddr as SocketAddress>::init(echo, blen) };
    let got = model_of(&b);
    assert!(same(&got, &want), "address read back from the kernel equals the original");
}

//@ prop: C16
//@ tier: quick
//@ what: Unix pathname address: the (pointer,length) pair makes the kernel see exactly that path; the length the kernel reports (path + terminating NUL, or without it) reads back as the same pathname address
//@ bound: path of 1..=4 symbolic non-NUL bytes; kernel-reported length with and without the trailing NUL
//@ encodes: <unix::net::SocketAddr as SocketAddress>::{into_storage,as_ptr,as_mut_ptr,init}
//@ assumes: kernel model of AF_UNIX address lengths transcribed from unix(7) (cross-checked natively against getsockname in the design phase)
#[kani::proof]
#[kani::unwind(10)]
fn c16_unix_pathname() {
    let n: usize = kani::any();
    kani::assume(n >= 1 && n <= NAME_MAX);
    let bytes: [u8; NAME_MAX] = kani::any();
    let mut i = 0;
    while i < NAME_MAX {
        kani::assume(i >= n || bytes[i] != 0);
        i += 1;
    }
    let path = std::path::Path::new(std::ffi::OsStr::from_bytes(&bytes[..n]));
    let a = UnixAddr::from_pathname(path).unwrap();
    let with_nul: bool = kani::any();
    unix_roundtrip(a, with_nul);
    kani::cover!(n == NAME_MAX && with_nul);
    kani::cover!(n == 1 && !with_nul);
}

//@ prop: C16
//@ tier: quick
//@ what: Unix abstract address: the kernel sees exactly the name (no padding NULs appended) and the reported length 2+1+|name| reads back as the same name, including names containing NUL bytes and the empty name
//@ bound: name of 0..=4 symbolic bytes (NULs allowed)
//@ encodes: <unix::net::SocketAddr as SocketAddress>::{into_storage,as_ptr,as_mut_ptr,init}
//@ assumes: kernel model of AF_UNIX address lengths transcribed from unix(7)
#[kani::proof]
#[kani::unwind(10)]
fn c16_unix_abstract() {
    let n: usize = kani::any();
    kani::assume(n <= NAME_MAX);
    let bytes: [u8; NAME_MAX] = kani::any();
    let a = UnixAddr::from_abstract_name(&bytes[..n]).unwrap();
    unix_roundtrip(a, true);
    kani::cover!(n == NAME_MAX && bytes[NAME_MAX - 1] == 0);
    kani::cover!(n == 0);
}

//@ prop: C16 C13 C01
//@ tier: quick
//@ what: Unix unnamed address: handed to the kernel as an unnamed address (length 2, not a 108-byte abstract name of NULs) and read back from length 2 as unnamed
//@ bound: single value
//@ encodes: <unix::net::SocketAddr as SocketAddress>::{into_storage,as_ptr,as_mut_ptr,init}
//@ assumes: kernel model of AF_UNIX address lengths transcribed from unix(7)
#[kani::proof]
#[kani::unwind(10)]
fn c16_unix_unnamed() {
    let a = UnixAddr::from_pathname("").unwrap();
    assert!(a.is_unnamed());
    unix_roundtrip(a, true);
    kani::cover!(true);
}
