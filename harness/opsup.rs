//@@ attach: src/io_uring/op.rs
//! Accessors for the private operation state (`Status`, `Shared`, result
//! containers) so that harnesses in other modules can build an operation in
//! an arbitrary state and inspect it afterwards. Child of `io_uring::op`.
#![allow(dead_code, unused_imports, clippy::all, clippy::pedantic)]

use std::sync::Mutex;
use std::task;

use super::{
    CompletionFlags, CompletionResult, Multishot, MultiShared, Shared, SingleShared, Singleshot, Status,
};

#[derive(Copy, Clone, PartialEq, Eq, Debug)]
pub(crate) enum Tag {
    NotStarted,
    Running,
    Done,
    Dropped,
    Complete,
}

/// Access without locking (the harness owns the state): no lock atomics, no
/// `unwrap` formatting machinery in the formula.
fn peek<T>(s: &Mutex<Shared<T>>) -> &Shared<T> {
    // SAFETY: harnesses are sequential and call this only while no guard is alive.
    unsafe { &*s.data_ptr() }
}

pub(crate) fn tag<T>(s: &Mutex<Shared<T>>) -> Tag {
    let g = peek(s);
    match g.status {
        Status::NotStarted => Tag::NotStarted,
        Status::Running { .. } => Tag::Running,
        Status::Done { .. } => Tag::Done,
        Status::Dropped { .. } => Tag::Dropped,
        Status::Complete => Tag::Complete,
    }
}

pub(crate) fn has_waker<T>(s: &Mutex<Shared<T>>) -> bool {
    peek(s).waker.is_some()
}

pub(crate) fn waker_of<T>(s: &Mutex<Shared<T>>) -> Option<usize> {
    peek(s).waker.as_ref().and_then(crate::io_uring::verif_kernel::waker_id)
}

pub(crate) fn cr(result: i32, flags: u32) -> CompletionResult {
    CompletionResult { flags: CompletionFlags(flags), result }
}

pub(crate) fn cr_parts(c: CompletionResult) -> (i32, u32) {
    (c.result, c.flags.0)
}

/// A multishot operation's shared state, `Running` or `Done`, holding
/// `results` (already queued) and `waker`. The Vec has capacity 8 so pushes
/// never reallocate (keeps `Vec`'s grow path out of the formula).
pub(crate) fn multi(done: bool, results: &[(i32, u32)], waker: Option<task::Waker>) -> Box<MultiShared> {
    let mut v = Vec::with_capacity(8);
    for (r, f) in results {
        v.push(cr(*r, *f));
    }
    let results = Multishot(v);
    Box::new(Mutex::new(Shared {
        status: if done { Status::Done { results } } else { Status::Running { results } },
        waker,
    }))
}

/// Number of queued results and the first four of them.
pub(crate) fn multi_results(s: &MultiShared) -> (usize, [(i32, u32); 4]) {
    let g = peek(s);
    let mut out = [(0, 0); 4];
    let n = match &g.status {
        Status::Running { results } | Status::Done { results } => {
            let n = results.0.len();
            if n > 0 { out[0] = cr_parts(results.0[0]); }
            if n > 1 { out[1] = cr_parts(results.0[1]); }
            if n > 2 { out[2] = cr_parts(results.0[2]); }
            if n > 3 { out[3] = cr_parts(results.0[3]); }
            n
        }
        _ => 0,
    };
    (n, out)
}

pub(crate) fn single(done: bool, result: (i32, u32), waker: Option<task::Waker>) -> Box<SingleShared> {
    let results = Singleshot(cr(result.0, result.1));
    Box::new(Mutex::new(Shared {
        status: if done { Status::Done { results } } else { Status::Running { results } },
        waker,
    }))
}

pub(crate) fn single_result(s: &SingleShared) -> Option<(i32, u32)> {
    let g = peek(s);
    match &g.status {
        Status::Running { results } | Status::Done { results } => Some(cr_parts(results.0)),
        _ => None,
    }
}

/// user_data the library would put in a submission for this shared state.
pub(crate) fn user_data_single(s: &SingleShared) -> u64 {
    std::ptr::from_ref(s).expose_provenance() as u64
}

pub(crate) fn user_data_multi(s: &MultiShared) -> u64 {
    std::ptr::from_ref(s).expose_provenance() as u64 | 1
}

// ---------------------------------------------------------------------------
// Whole operation `State` (as held by the Future types).
// ---------------------------------------------------------------------------

use super::{Data, OpResult, State};

fn shared_mut<T, R, A>(s: &mut State<T, R, A>) -> &mut Shared<T> {
    let data = unsafe { s.data.as_mut() };
    match data.shared.get_mut() {
        Ok(g) => g,
        Err(e) => e.into_inner(),
    }
}

/// Put a single-shot operation into `Done` with the given completion result
/// (as `Shared::update` leaves it after the final completion).
pub(crate) fn force_done<R, A>(s: &mut State<Singleshot, R, A>, res: i32, flags: u32) {
    shared_mut(s).status = Status::Done { results: Singleshot(cr(res, flags)) };
}

/// `Running` (submitted, no final completion yet), with a stored waker.
pub(crate) fn force_running<R, A>(s: &mut State<Singleshot, R, A>, res: i32, flags: u32, waker: Option<task::Waker>) {
    let sh = shared_mut(s);
    sh.status = Status::Running { results: Singleshot(cr(res, flags)) };
    sh.waker = waker;
}

pub(crate) fn force_multi<R, A>(s: &mut State<Multishot, R, A>, done: bool, results: &[(i32, u32)], waker: Option<task::Waker>) {
    // unrolled (no harness loop: keeps the global unwind bound at what a10 needs)
    let mut v = Vec::with_capacity(8);
    if results.len() > 0 { v.push(cr(results[0].0, results[0].1)); }
    if results.len() > 1 { v.push(cr(results[1].0, results[1].1)); }
    if results.len() > 2 { v.push(cr(results[2].0, results[2].1)); }
    if results.len() > 3 { v.push(cr(results[3].0, results[3].1)); }
    assert!(results.len() <= 4);
    let sh = shared_mut(s);
    sh.status = if done { Status::Done { results: Multishot(v) } } else { Status::Running { results: Multishot(v) } };
    sh.waker = waker;
}

pub(crate) fn state_tag<T, R, A>(s: &State<T, R, A>) -> Tag {
    tag(unsafe { &s.data.as_ref().shared })
}

pub(crate) fn state_waker<T, R, A>(s: &State<T, R, A>) -> Option<usize> {
    waker_of(unsafe { &s.data.as_ref().shared })
}

/// The user_data the library uses for this state.
pub(crate) fn state_user_data<T: OpResult, R, A>(s: &State<T, R, A>) -> u64 {
    s.user_data()
}

/// Address range of the heap allocation holding the operation's data
/// (shared status + resources + args).
pub(crate) fn state_alloc<T, R, A>(s: &State<T, R, A>) -> (usize, usize) {
    (s.data.as_ptr().addr(), std::mem::size_of::<Data<T, R, A>>())
}

pub(crate) fn state_multi_results<R, A>(s: &State<Multishot, R, A>) -> (usize, [(i32, u32); 4]) {
    multi_results(unsafe { &s.data.as_ref().shared })
}

pub(crate) fn state_single_result<R, A>(s: &State<Singleshot, R, A>) -> Option<(i32, u32)> {
    single_result(unsafe { &s.data.as_ref().shared })
}

/// What the real `poll_inner` does when it resolves a single-shot operation:
/// mark it `Complete` and move the resources out.
pub(crate) fn complete_and_take<R, A>(s: &mut State<Singleshot, R, A>) -> R {
    shared_mut(s).status = Status::Complete;
    unsafe { s.data.as_mut().tail.resources.get().cast::<R>().read() }
}

/// Resources and arguments a (re)started operation would be submitted with.
pub(crate) fn resources_args<T, R, A>(s: &mut State<T, R, A>) -> (&mut R, &mut A) {
    let data = unsafe { s.data.as_mut() };
    (unsafe { data.tail.resources.get_mut().assume_init_mut() }, &mut data.tail.args)
}

// ---------------------------------------------------------------------------
// Model of `io_uring::op::poll` (the single-shot front end of `poll_inner`),
// used as a Kani stub by the composite-I/O harnesses (C10).
//
// Two chained real `poll_inner` calls (resolve + resubmit) inside a composite
// future's recursion run CBMC out of memory (> 20 GB with everything but the
// transfer size concrete). The model keeps exactly the two arms the composites
// exercise and calls the operation's REAL closures:
//   * status Done      -> take the stored completion result, mark Complete,
//                         move the resources out, return map_ok(target,
//                         resources, (flags, n)) or fallback(...) on error;
//   * status NotStarted (only reachable through the composite's real
//     `State::reset`) -> run the REAL fill_submission + set_flags on the
//     resources/arguments found in the state, record the request, Pending.
// poll_inner itself (locking, wakers, queue-full, restart) is C02/C03/C09.
// ---------------------------------------------------------------------------

use super::{OpReturn, OpTarget, Submission};
use crate::io_uring::verif_kernel as k;

pub(crate) static mut MODEL_REQUESTS: crate::verif_stubs::V<u32> = crate::verif_stubs::V::new(0);
pub(crate) static mut MODEL_REQUEST: crate::verif_stubs::V<k::Sqe> = crate::verif_stubs::V::new(k::ZERO_SQE);
pub(crate) static mut MODEL_RESOLVED: crate::verif_stubs::V<u32> = crate::verif_stubs::V::new(0);

pub(crate) fn model_reset() {
    unsafe {
        MODEL_REQUESTS.v = 0;
        MODEL_REQUEST.v = k::ZERO_SQE;
        MODEL_RESOLVED.v = 0;
    }
}

pub(crate) fn poll_model<T, O, R, A, Out>(
    target: &T,
    state: &mut State<O, R, A>,
    _ctx: &mut task::Context<'_>,
    fill_submission: impl Fn(&T, &mut R, &mut A, &mut Submission),
    map_ok: impl Fn(&T, R, OpReturn) -> Out,
    fallback: impl Fn(&T, R, &mut A, std::io::Error) -> std::io::Result<Out>,
) -> task::Poll<std::io::Result<Out>>
where
    T: OpTarget,
    O: OpResult,
{
    let data = unsafe { state.data.as_mut() };
    let shared = match data.shared.get_mut() {
        Ok(g) => g,
        Err(e) => e.into_inner(),
    };
    match &mut shared.status {
        Status::Done { results } => {
            let result = results.next().unwrap();
            shared.status = Status::Complete;
            unsafe { MODEL_RESOLVED.v += 1 };
            let resources = unsafe { data.tail.resources.get().cast::<R>().read() };
            match result.check_result() {
                Ok(n) => task::Poll::Ready(Ok(map_ok(target, resources, (result.flags, n)))),
                Err(err) => task::Poll::Ready(fallback(target, resources, &mut data.tail.args, err)),
            }
        }
        Status::NotStarted => {
            let resources = unsafe { data.tail.resources.get_mut().assume_init_mut() };
            let mut sub = k::new_submission();
            fill_submission(target, resources, &mut data.tail.args, &mut sub);
            target.set_flags(&mut sub);
            unsafe {
                MODEL_REQUEST.v = k::submission_view(&sub);
                MODEL_REQUESTS.v += 1;
            }
            task::Poll::Pending
        }
        _ => panic!("composite polled its inner operation in an unexpected state"),
    }
}

/// Number of requests the operation issued: recorded by the model (Kani) or
/// really queued on the ring (native replay, where stubs do not apply and the
/// real `poll_inner` runs against the static submission queue).
pub(crate) fn requests() -> u32 {
    unsafe { MODEL_REQUESTS.v + k::sq_tail() }
}

pub(crate) fn last_request() -> k::Sqe {
    unsafe {
        if MODEL_REQUESTS.v > 0 {
            MODEL_REQUEST.v
        } else {
            let mut e = k::sqe_view(k::sqe(((k::sq_tail().wrapping_sub(1)) & 3) as usize));
            // the real submission also carries the operation's user_data
            e.user_data = 0;
            e
        }
    }
}

/// Stub for `io_uring::op::poll` that only ever *submits*: runs the real
/// fill_submission on the state's resources/arguments, records the request and
/// returns Pending. For harnesses where the operation can only be (re)started.
pub(crate) fn poll_model_submit_only<T, O, R, A, Out>(
    target: &T,
    state: &mut State<O, R, A>,
    _ctx: &mut task::Context<'_>,
    fill_submission: impl Fn(&T, &mut R, &mut A, &mut Submission),
    _map_ok: impl Fn(&T, R, OpReturn) -> Out,
    _fallback: impl Fn(&T, R, &mut A, std::io::Error) -> std::io::Result<Out>,
) -> task::Poll<std::io::Result<Out>>
where
    T: OpTarget,
    O: OpResult,
{
    let data = unsafe { state.data.as_mut() };
    let resources = unsafe { data.tail.resources.get_mut().assume_init_mut() };
    let mut sub = k::new_submission();
    fill_submission(target, resources, &mut data.tail.args, &mut sub);
    target.set_flags(&mut sub);
    unsafe {
        MODEL_REQUEST.v = k::submission_view(&sub);
        MODEL_REQUESTS.v += 1;
    }
    task::Poll::Pending
}

/// Multishot counterpart of [`poll_model_submit_only`] (stub for `poll_next`).
pub(crate) fn poll_next_model_submit_only<T, O, R, A, Out>(
    target: &T,
    state: &mut State<O, R, A>,
    _ctx: &mut task::Context<'_>,
    fill_submission: impl Fn(&T, &mut R, &mut A, &mut Submission),
    _map_next: impl Fn(&T, &R, OpReturn) -> Out,
    _fallback: impl Fn(&T, &R, &mut A, std::io::Error) -> std::io::Result<Out>,
) -> task::Poll<Option<std::io::Result<Out>>>
where
    T: OpTarget,
    O: OpResult,
{
    let data = unsafe { state.data.as_mut() };
    let resources = unsafe { data.tail.resources.get_mut().assume_init_mut() };
    let mut sub = k::new_submission();
    fill_submission(target, resources, &mut data.tail.args, &mut sub);
    target.set_flags(&mut sub);
    unsafe {
        MODEL_REQUEST.v = k::submission_view(&sub);
        MODEL_REQUESTS.v += 1;
    }
    task::Poll::Pending
}

/// Address of the resources stored in an operation's state.
pub(crate) fn resources_addr<T, R, A>(s: &State<T, R, A>) -> usize {
    unsafe { s.data.as_ref().tail.resources.get().addr() }
}

pub(crate) fn completion_flags(bits: u32) -> CompletionFlags {
    CompletionFlags(bits)
}
