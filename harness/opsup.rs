//@@ attach: src/io_uring/op.rs
//! Accessors for the private operation state (`Status`, `Shared`, result
//! containers) so that harnesses in other modules can build an operation in
//! an arbitrary state and inspect it afterwards. Child of `io_uring::op`.
#![allow(dead_code, unused_imports, clippy::all, clippy::pedantic)]

use std::sync::Mutex;
use std::task;

use super::{
    CompletionFlags, CompletionResult, Multishot, MultiShared, Shared, SingleShared, Singleshot, Status,
};

#[derive(Copy, Clone, PartialEq, Eq, Debug)]
pub(crate) enum Tag {
    NotStarted,
    Running,
    Done,
    Dropped,
    Complete,
}

/// Access without locking (the harness owns the state): no lock atomics, no
/// `unwrap` formatting machinery in the formula.
fn peek<T>(s: &Mutex<Shared<T>>) -> &Shared<T> {
    // SAFETY: harnesses are sequential and call this only while no guard is alive.
    unsafe { &*s.data_ptr() }
}

pub(crate) fn tag<T>(s: &Mutex<Shared<T>>) -> Tag {
    let g = peek(s);
    match g.status {
        Status::NotStarted => Tag::NotStarted,
        Status::Running { .. } => Tag::Running,
        Status::Done { .. } => Tag::Done,
        Status::Dropped { .. } => Tag::Dropped,
        Status::Complete => Tag::Complete,
    }
}

pub(crate) fn has_waker<T>(s: &Mutex<Shared<T>>) -> bool {
    peek(s).waker.is_some()
}

pub(crate) fn waker_of<T>(s: &Mutex<Shared<T>>) -> Option<usize> {
    peek(s).waker.as_ref().and_then(crate::io_uring::verif_kernel::waker_id)
}

pub(crate) fn cr(result: i32, flags: u32) -> CompletionResult {
    CompletionResult { flags: CompletionFlags(flags), result }
}

pub(crate) fn cr_parts(c: CompletionResult) -> (i32, u32) {
    (c.result, c.flags.0)
}

/// A multishot operation's shared state, `Running` or `Done`, holding
/// `results` (already queued) and `waker`. The Vec has capacity 8 so pushes
/// never reallocate (keeps `Vec`'s grow path out of the formula).
pub(crate) fn multi(done: bool, results: &[(i32, u32)], waker: Option<task::Waker>) -> Box<MultiShared> {
    let mut v = Vec::with_capacity(8);
    for (r, f) in results {
        v.push(cr(*r, *f));
    }
    let results = Multishot(v);
    Box::new(Mutex::new(Shared {
        status: if done { Status::Done { results } } else { Status::Running { results } },
        waker,
    }))
}

/// Number of queued results and the first four of them.
pub(crate) fn multi_results(s: &MultiShared) -> (usize, [(i32, u32); 4]) {
    let g = peek(s);
    let mut out = [(0, 0); 4];
    let n = match &g.status {
        Status::Running { results } | Status::Done { results } => {
            let mut i = 0;
            while i < results.0.len() && i < 4 {
                out[i] = cr_parts(results.0[i]);
                i += 1;
            }
            results.0.len()
        }
        _ => 0,
    };
    (n, out)
}

pub(crate) fn single(done: bool, result: (i32, u32), waker: Option<task::Waker>) -> Box<SingleShared> {
    let results = Singleshot(cr(result.0, result.1));
    Box::new(Mutex::new(Shared {
        status: if done { Status::Done { results } } else { Status::Running { results } },
        waker,
    }))
}

pub(crate) fn single_result(s: &SingleShared) -> Option<(i32, u32)> {
    let g = peek(s);
    match &g.status {
        Status::Running { results } | Status::Done { results } => Some(cr_parts(results.0)),
        _ => None,
    }
}

/// user_data the library would put in a submission for this shared state.
pub(crate) fn user_data_single(s: &SingleShared) -> u64 {
    std::ptr::from_ref(s).expose_provenance() as u64
}

pub(crate) fn user_data_multi(s: &MultiShared) -> u64 {
    std::ptr::from_ref(s).expose_provenance() as u64 | 1
}
