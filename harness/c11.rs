//@@ attach: src/lib.rs
//! C11: SubmissionQueue::wake never loses a wake-up. The two-flag handshake
//! (PollingState) under every interleaving of one poll and up to two wake
//! calls, at the granularity of its atomic operations.
#![allow(dead_code, unused_imports, static_mut_refs, clippy::all, clippy::pedantic)]

use crate::PollingState;

/// One poll's view: P1 = set_polling(true) [returns "already awoken"], K =
/// the kernel wait (blocks unless a zero timeout was chosen or a wake message
/// arrives), P3 = set_polling(false). A waker: W1 = wake() [returns "post a
/// message"], W2 = the message reaches the completion queue (only if told to).
///
/// The schedule is a symbolic sequence of `steps` choosing which thread moves
/// next; each thread follows its program order.
//@ prop: C11
//@ tier: quick
//@ what: for EVERY interleaving of one Ring::poll (announce polling / wait in the kernel / clear) with two SubmissionQueue::wake calls (set awoken / post a ring message if a poll is in progress), a wake() that completed before the poll started waiting makes the wait return: either the poll saw the flag and uses a zero timeout, or a message is or will be posted by a waker that was told to; and a wake() that returns while no poll is in progress makes the NEXT poll not block
//@ bound: 1 poll followed by the start of a 2nd poll x 2 wakers; all interleavings of their atomic steps (<= 9 steps); sequentially consistent atomics
//@ encodes: PollingState::{new,set_polling,wake}
//@ assumes: the kernel delivers a posted MSG_RING completion to a waiting io_uring_enter (io_uring contract)
#[kani::proof]
#[kani::unwind(12)]
fn c11_polling_state_protocol() {
    let st = PollingState::new();
    // poller program counter: 0 = before P1, 1 = announced (about to wait), 2 = waited, 3 = cleared,
    // 4 = second poll announced
    let mut pc_poll: u8 = 0;
    let mut zero_timeout = false; // decision of the current poll
    let mut zero_timeout2 = false;
    // wakers: 0 = before W1, 1 = after W1 (must_post decided), 2 = message posted / done
    let mut pc_w = [0u8; 2];
    let mut must_post = [false; 2];
    let mut msgs_in_cq: u32 = 0; // wake messages posted and not yet consumed
    // ghost: a wake() completed (W1 returned) since the last poll returned
    let mut wake_completed_before_wait = false;
    let mut wake_completed_after_clear = false;
    let mut violated_block = false;

    let mut step = 0;
    while step < 9 {
        let who: u8 = kani::any();
        kani::assume(who < 3);
        if who == 0 {
            match pc_poll {
                0 => {
                    zero_timeout = st.set_polling(true);
                    pc_poll = 1;
                }
                1 => {
                    // K: the kernel wait. It returns promptly iff zero timeout or a message is
                    // there or will still be posted by a waker that was told to post.
                    let pending_post = (pc_w[0] == 1 && must_post[0]) || (pc_w[1] == 1 && must_post[1]);
                    let returns = zero_timeout || msgs_in_cq > 0 || pending_post;
                    if wake_completed_before_wait && !returns {
                        violated_block = true;
                    }
                    // if it does not return promptly it stays blocked: model the poll as
                    // remaining in state 1 until something arrives
                    if returns {
                        if msgs_in_cq > 0 {
                            msgs_in_cq -= 1;
                        }
                        pc_poll = 2;
                    }
                }
                2 => {
                    st.set_polling(false);
                    pc_poll = 3;
                    wake_completed_after_clear = false;
                }
                3 => {
                    zero_timeout2 = st.set_polling(true);
                    pc_poll = 4;
                    // a wake() that completed after the previous poll cleared its flags, while no
                    // poll was in progress, must make THIS poll not block
                    if wake_completed_after_clear {
                        let pending_post = (pc_w[0] == 1 && must_post[0]) || (pc_w[1] == 1 && must_post[1]);
                        assert!(zero_timeout2 || msgs_in_cq > 0 || pending_post, "wake() between two polls is not lost: the next poll does not block");
                    }
                }
                _ => {}
            }
        } else {
            let w = (who - 1) as usize;
            match pc_w[w] {
                0 => {
                    must_post[w] = st.wake();
                    pc_w[w] = 1;
                    if pc_poll == 0 {
                        wake_completed_before_wait = true;
                    }
                    if pc_poll == 1 {
                        // poll already announced: it will wait; this wake completed before/while
                        // it waits, so the wait must end
                        wake_completed_before_wait = true;
                    }
                    if pc_poll == 3 {
                        wake_completed_after_clear = true;
                    }
                }
                1 => {
                    if must_post[w] {
                        msgs_in_cq += 1;
                    }
                    pc_w[w] = 2;
                }
                _ => {}
            }
        }
        step += 1;
    }
    assert!(!violated_block, "a wake() that completed is never followed by an indefinitely blocking poll");
    kani::cover!(pc_poll == 4 && pc_w[0] == 2 && pc_w[1] == 2);
    kani::cover!(must_post[0] && !must_post[1] && pc_w[1] >= 1);
    kani::cover!(zero_timeout);
}
