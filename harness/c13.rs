//@@ attach: src/lib.rs
//! C13: each operation equals its POSIX call -- the part a10 is responsible
//! for: for every argument value the submission a10 builds is the one the
//! io_uring ABI prescribes for that system call (reference rows transcribed
//! from io_uring_enter(2) / liburing's io_uring_prep_* helpers), builder
//! settings made before the first poll take effect, IOSQE_FIXED_FILE iff the
//! descriptor is direct, untouched fields are zero.
//!
//! The future is created through the crate's API and polled once; the stub of
//! `io_uring::op::{poll,poll_next}` runs the operation's real fill_submission
//! and the target's real set_flags and records the 64-byte entry.
#![allow(dead_code, unused_imports, static_mut_refs, clippy::all, clippy::pedantic)]

use std::future::Future;
use std::mem::ManuallyDrop;
use std::pin::Pin;
use std::task::{Context, Poll};

use crate::fd::{AsyncFd, Kind};
use crate::io_uring::op::verif_opsup as ops;
use crate::io_uring::verif_kernel as k;
use crate::io_uring::verif_kernel::{Sqe, ZERO_SQE};
use crate::SubmissionQueue;

const NO_OFFSET: u64 = u64::MAX;
const IOSQE_FIXED_FILE: u8 = 1;
const IOSQE_ASYNC: u8 = 1 << 4;
const IOSQE_BUFFER_SELECT: u8 = 1 << 5;
const FILE_INDEX_ALLOC: u32 = u32::MAX;
const AT_FDCWD: i32 = -100;
const O_CLOEXEC: u32 = 0o2000000;

fn sq() -> SubmissionQueue {
    k::install(k::base_table());
    k::sq_set(0, 0);
    ops::model_reset();
    SubmissionQueue(crate::io_uring::sq::verif_c04::submissions_in_place(2, false, false))
}

/// A descriptor of symbolic number and kind; returns (handle, number, fixed-file flag).
fn any_fd(sq: &SubmissionQueue) -> (ManuallyDrop<AsyncFd>, i32, u8) {
    let n: i32 = kani::any();
    kani::assume(n >= 0 && n < i32::MAX);
    let direct: bool = kani::any();
    let fd = unsafe { AsyncFd::from_raw(n, if direct { Kind::Direct } else { Kind::File }, sq.clone()) };
    (ManuallyDrop::new(fd), n, if direct { IOSQE_FIXED_FILE } else { 0 })
}

/// Poll once, return the recorded submission.
fn submit<F: Future + Unpin>(fut: &mut F) -> Sqe {
    let w = k::waker(0);
    let mut ctx = Context::from_waker(&w);
    let r = Pin::new(fut).poll(&mut ctx);
    assert!(r.is_pending());
    std::mem::forget(r);
    assert!(ops::requests() == 1, "exactly one request per started operation");
    ops::last_request()
}

macro_rules! c13 {
    ($($item:item)*) => { $(
        #[kani::proof]
        #[kani::unwind(6)]
        #[kani::stub(crate::io_uring::op::poll, crate::io_uring::op::verif_opsup::poll_model_submit_only)]
        #[kani::stub(crate::io_uring::op::poll_next, crate::io_uring::op::verif_opsup::poll_next_model_submit_only)]
        #[kani::stub(<core::io::CustomOwner as core::ops::Drop>::drop, crate::verif_stubs::custom_owner_drop_noop)]
        #[kani::stub(crate::lock, crate::verif_stubs::lock_model)]
        $item
    )* };
}

fn vec4(len: usize) -> Vec<u8> {
    let mut v = Vec::with_capacity(4);
    unsafe {
        core::ptr::write_bytes(v.as_mut_ptr(), 7u8, 4);
        v.set_len(len);
    }
    v
}

c13! {

//@ prop: C13
//@ tier: quick
//@ what: read / read(..).from(offset): IORING_OP_READ{fd, addr = first spare byte, len = spare capacity, off = offset or -1 (current position)}, FIXED_FILE iff direct; write / write(..).at(offset): IORING_OP_WRITE{fd, addr = data, len = data length, off}
//@ bound: fd any, kind any, buffer of 4 with symbolic fill 0..=4, offset any u64 / unset
//@ encodes: io::AsyncFd::{read,write}; io::Read::from; io::Write::at; <io_uring::io::ReadOp as FdOp>::fill_submission; <io_uring::io::WriteOp as FdOp>::fill_submission; <AsyncFd as OpTarget>::set_flags
//@ stubs: io_uring::op::{poll,poll_next} -> submit-only model running the real fill_submission/set_flags; crate::lock -> try_lock model; <core::io::CustomOwner as Drop>::drop -> no-op
fn c13_read_write() {
    let sq = sq();
    let (fd, n, fixed) = any_fd(&sq);
    let len: usize = kani::any();
    kani::assume(len <= 4);
    let buf = vec4(len);
    let base = buf.as_ptr().addr() as u64;
    let positional: bool = kani::any();
    let offset: u64 = kani::any();
    let mut want = ZERO_SQE;
    want.fd = n;
    want.flags = fixed;
    want.off = if positional { offset } else { NO_OFFSET };
    if kani::any() {
        let mut f = fd.read(buf);
        if positional {
            f = f.from(offset);
        }
        let e = submit(&mut f);
        want.opcode = 22;
        want.addr = base + len as u64;
        want.len = 4 - len as u32;
        assert!(e == want, "IORING_OP_READ as read(2)/pread(2)");
        std::mem::forget(f);
    } else {
        let mut f = fd.write(buf);
        if positional {
            f = f.at(offset);
        }
        let e = submit(&mut f);
        want.opcode = 23;
        want.addr = base;
        want.len = len as u32;
        assert!(e == want, "IORING_OP_WRITE as write(2)/pwrite(2)");
        std::mem::forget(f);
    }
    kani::cover!(positional && fixed != 0);
    kani::cover!(!positional && len == 0);
    std::mem::forget(sq);
}

//@ prop: C13 C01
//@ tier: quick
//@ what: read_vectored / write_vectored (+ from/at): IORING_OP_READV / WRITEV{fd, addr = the stored iovec array, len = number of buffers, off}; each iovec is the buffer's (spare / data) pointer and length
//@ bound: 2 buffers of 4 bytes with symbolic fill; fd/kind/offset symbolic
//@ encodes: io::AsyncFd::{read_vectored,write_vectored}; <io_uring::io::ReadVectoredOp as FdOp>::fill_submission; <io_uring::io::WriteVectoredOp as FdOp>::fill_submission
//@ stubs: as c13_read_write
fn c13_readv_writev() {
    let sq = sq();
    let (fd, n, fixed) = any_fd(&sq);
    let (l0, l1): (usize, usize) = (kani::any(), kani::any());
    kani::assume(l0 <= 4 && l1 <= 4);
    let bufs = [vec4(l0), vec4(l1)];
    let bases = [bufs[0].as_ptr().addr(), bufs[1].as_ptr().addr()];
    let positional: bool = kani::any();
    let offset: u64 = kani::any();
    let mut want = ZERO_SQE;
    want.fd = n;
    want.flags = fixed;
    want.len = 2;
    want.off = if positional { offset } else { NO_OFFSET };
    if kani::any() {
        let mut f = fd.read_vectored(bufs);
        if positional {
            f = f.from(offset);
        }
        let e = submit(&mut f);
        let iov = crate::io::verif_c10::readv_iovecs(&mut f);
        want.opcode = 1;
        want.addr = iov.as_ptr().addr() as u64;
        assert!(e == want, "IORING_OP_READV as readv(2)/preadv(2)");
        assert!(unsafe { iov[0].ptr() }.addr() == bases[0] + l0 && iov[0].len() == 4 - l0);
        assert!(unsafe { iov[1].ptr() }.addr() == bases[1] + l1 && iov[1].len() == 4 - l1);
        std::mem::forget(f);
    } else {
        let mut f = fd.write_vectored(bufs);
        if positional {
            f = f.at(offset);
        }
        let e = submit(&mut f);
        let iov = crate::io::verif_c10::writev_iovecs(&mut f);
        want.opcode = 2;
        want.addr = iov.as_ptr().addr() as u64;
        assert!(e == want, "IORING_OP_WRITEV as writev(2)/pwritev(2)");
        assert!(unsafe { iov[0].ptr() }.addr() == bases[0] && iov[0].len() == l0);
        assert!(unsafe { iov[1].ptr() }.addr() == bases[1] && iov[1].len() == l1);
        std::mem::forget(f);
    }
    kani::cover!(positional);
    std::mem::forget(sq);
}

//@ prop: C13
//@ tier: quick
//@ what: splice_to / splice_from (+ from/at/flags): IORING_OP_SPLICE{fd = output descriptor, splice_fd_in = input descriptor, off = output offset, splice_off_in = input offset, len, splice_flags}: `to` reads from self and writes the target, `from` the reverse; offsets default to -1
//@ bound: both descriptors, length, offsets, flags symbolic
//@ encodes: io::AsyncFd::{splice_to,splice_from}; io::Splice::{from,at,flags}; <io_uring::io::SpliceOp as FdOp>::fill_submission
//@ stubs: as c13_read_write
fn c13_splice() {
    use std::os::fd::BorrowedFd;
    let sq = sq();
    let (fd, n, fixed) = any_fd(&sq);
    let target: i32 = kani::any();
    kani::assume(target >= 0);
    let length: u32 = kani::any();
    let to: bool = kani::any();
    let t = unsafe { BorrowedFd::borrow_raw(target) };
    let mut f = if to { fd.splice_to(t, length) } else { fd.splice_from(t, length) };
    let (set_in, set_out, set_flags): (bool, bool, bool) = (kani::any(), kani::any(), kani::any());
    let (off_in, off_out, flags): (u64, u64, u32) = (kani::any(), kani::any(), kani::any());
    if set_in {
        f = f.from(off_in);
    }
    if set_out {
        f = f.at(off_out);
    }
    if set_flags {
        f = f.flags(crate::io::SpliceFlag(flags));
    }
    let e = submit(&mut f);
    let mut want = ZERO_SQE;
    want.opcode = 30;
    want.flags = fixed;
    want.fd = if to { target } else { n };
    want.file_index = (if to { n } else { target }) as u32; // splice_fd_in
    want.off = if set_out { off_out } else { NO_OFFSET };
    want.addr = if set_in { off_in } else { NO_OFFSET }; // splice_off_in
    want.len = length;
    want.op_flags = if set_flags { flags } else { 0 };
    assert!(e == want, "IORING_OP_SPLICE as splice(2)");
    kani::cover!(to && set_in && set_flags);
    kani::cover!(!to && set_out);
    std::mem::forget(f);
    std::mem::forget(sq);
}

//@ prop: C13
//@ tier: quick
//@ what: sync_all / sync_data: FSYNC{fd, fsync_flags = 0 / DATASYNC}; truncate: FTRUNCATE{fd, off = length}; advise: FADVISE{fd, off, len, advice}; allocate (+mode): FALLOCATE{fd, off = offset, addr = length, len = mode} (metadata/STATX is not encodable: Kani does not support the C string literal c"" its encoder uses)
//@ bound: every argument symbolic; fd/kind symbolic
//@ encodes: fs: AsyncFd::{sync_all,sync_data,truncate,advise,allocate,metadata}; Allocate::mode; Stat::only; io_uring::fs::{SyncDataOp,TruncateOp,AdviseOp,AllocateOp,StatOp}::fill_submission
//@ stubs: as c13_read_write
fn c13_fs_fd_ops() {
    let sq = sq();
    let (fd, n, fixed) = any_fd(&sq);
    let which: u8 = kani::any();
    kani::assume(which < 5);
    let (a, b, c): (u64, u32, u32) = (kani::any(), kani::any(), kani::any());
    let mut want = ZERO_SQE;
    want.fd = n;
    want.flags = fixed;
    match which {
        0 => {
            let mut f = fd.sync_all();
            want.opcode = 3;
            assert!(submit(&mut f) == want, "fsync(2)");
            std::mem::forget(f);
        }
        1 => {
            let mut f = fd.sync_data();
            want.opcode = 3;
            want.op_flags = 1; // IORING_FSYNC_DATASYNC
            assert!(submit(&mut f) == want, "fdatasync(2)");
            std::mem::forget(f);
        }
        2 => {
            let mut f = fd.truncate(a);
            want.opcode = 55;
            want.off = a;
            assert!(submit(&mut f) == want, "ftruncate(2)");
            std::mem::forget(f);
        }
        3 => {
            let mut f = fd.advise(a, b, crate::fs::AdviseFlag(c));
            want.opcode = 24;
            want.off = a;
            want.len = b;
            want.op_flags = c;
            assert!(submit(&mut f) == want, "posix_fadvise(2)");
            std::mem::forget(f);
        }
        4 => {
            let mut f = fd.allocate(a, b);
            let set_mode: bool = kani::any();
            if set_mode {
                f = f.mode(crate::fs::AllocateMode(c));
            }
            want.opcode = 17;
            want.off = a;
            want.addr = u64::from(b);
            want.len = if set_mode { c } else { 0 };
            assert!(submit(&mut f) == want, "fallocate(2)");
            std::mem::forget(f);
        }
        _ => {}
    }
    kani::cover!(which == 4);
    kani::cover!(which == 3 && fixed != 0);
    std::mem::forget(sq);
}

//@ prop: C13
//@ tier: quick
//@ what: path operations relative to the current directory: open: OPENAT{fd = AT_FDCWD, addr = path, len = mode, open_flags = flags (O_CLOEXEC for regular results), file_index = ALLOC iff a direct descriptor is requested}; create_dir: MKDIRAT{AT_FDCWD, path, mode 0o777}; rename: RENAMEAT{AT_FDCWD, addr = from, len = AT_FDCWD, off = to}; remove_file / remove_dir: UNLINKAT{AT_FDCWD, path, 0 / AT_REMOVEDIR}
//@ bound: flags/mode/kind symbolic; paths concrete ("p", "q") -- checked as pointers into the operation state
//@ encodes: io_uring::fs::{OpenOp,CreateDirOp,RenameOp,DeleteOp}::fill_submission; fd::Kind::{create_flags,cloexec_flag}
//@ stubs: as c13_read_write
fn c13_fs_path_ops() {
    use std::ffi::CString;
    let sq = sq();
    let which: u8 = kani::any();
    kani::assume(which < 5);
    let mut want = ZERO_SQE;
    want.fd = AT_FDCWD;
    match which {
        0 => {
            let flags: i32 = kani::any();
            let mode: u32 = kani::any();
            let direct: bool = kani::any();
            let kind = if direct { Kind::Direct } else { Kind::File };
            let p = CString::new("p").unwrap();
            let pa = p.as_ptr().addr() as u64;
            let mut f = crate::fs::Open::new(sq.clone(), (p, kind), (flags | kind.cloexec_flag(), mode));
            want.opcode = 18;
            want.addr = pa;
            want.len = mode;
            want.op_flags = flags as u32 | if direct { 0 } else { O_CLOEXEC };
            want.file_index = if direct { FILE_INDEX_ALLOC } else { 0 };
            assert!(submit(&mut f) == want, "openat(2)");
            kani::cover!(direct);
            std::mem::forget(f);
        }
        1 => {
            let p = CString::new("p").unwrap();
            let pa = p.as_ptr().addr() as u64;
            let mut f = crate::fs::CreateDir::new(sq.clone(), p, ());
            want.opcode = 37;
            want.addr = pa;
            want.len = 0o777;
            assert!(submit(&mut f) == want, "mkdirat(2)");
            std::mem::forget(f);
        }
        2 => {
            let (p, q) = (CString::new("p").unwrap(), CString::new("q").unwrap());
            let (pa, qa) = (p.as_ptr().addr() as u64, q.as_ptr().addr() as u64);
            let mut f = crate::fs::Rename::new(sq.clone(), (p, q), ());
            want.opcode = 35;
            want.addr = pa;
            want.off = qa;
            want.len = AT_FDCWD as u32;
            assert!(submit(&mut f) == want, "renameat(2): from in addr, to in addr2");
            std::mem::forget(f);
        }
        _ => {
            let p = CString::new("p").unwrap();
            let pa = p.as_ptr().addr() as u64;
            let dir = which == 4;
            let mut f = crate::fs::Delete::new(sq.clone(), p, if dir { crate::fs::RemoveFlag::Directory } else { crate::fs::RemoveFlag::File });
            want.opcode = 36;
            want.addr = pa;
            want.op_flags = if dir { 0x200 } else { 0 }; // AT_REMOVEDIR
            assert!(submit(&mut f) == want, "unlinkat(2)");
            std::mem::forget(f);
        }
    }
    kani::cover!(which == 2);
    kani::cover!(which == 4);
    std::mem::forget(sq);
}

//@ prop: C13
//@ tier: quick
//@ what: socket (+kind): SOCKET{fd = domain, off = type | SOCK_CLOEXEC (regular result), len = protocol, rw_flags 0, file_index = ALLOC iff direct}; listen: LISTEN{fd, len = backlog}; shutdown: SHUTDOWN{fd, len = SHUT_RD/WR/RDWR}; pipe (+kind,+flags): PIPE{addr = the two-descriptor array inside the state, pipe_flags = flags | O_CLOEXEC (regular), file_index = ALLOC iff direct}
//@ bound: all arguments symbolic
//@ encodes: net::socket; net::Socket::kind; AsyncFd::{listen,shutdown}; pipe::pipe; io_uring::net::{SocketOp,ListenOp,ShutdownOp}::fill_submission; io_uring::pipe::PipeOp::fill_submission
//@ stubs: as c13_read_write
fn c13_socket_listen_shutdown_pipe() {
    let sq = sq();
    let which: u8 = kani::any();
    kani::assume(which < 4);
    let mut want = ZERO_SQE;
    match which {
        0 => {
            let (domain, ty, proto): (i32, u32, u32) = (kani::any(), kani::any(), kani::any());
            let direct: bool = kani::any();
            let mut f = crate::net::socket(sq.clone(), crate::net::Domain(domain), crate::net::Type(ty), Some(crate::net::Protocol(proto)));
            if direct {
                f = f.kind(Kind::Direct);
            }
            want.opcode = 45;
            want.fd = domain;
            want.off = u64::from(ty | if direct { 0 } else { O_CLOEXEC });
            want.len = proto;
            want.file_index = if direct { FILE_INDEX_ALLOC } else { 0 };
            assert!(submit(&mut f) == want, "socket(2)");
            kani::cover!(direct);
            std::mem::forget(f);
        }
        1 => {
            let (fd, n, fixed) = any_fd(&sq);
            let backlog: u32 = kani::any();
            let mut f = fd.listen(backlog);
            want.opcode = 57;
            want.fd = n;
            want.flags = fixed;
            want.len = backlog;
            assert!(submit(&mut f) == want, "listen(2)");
            std::mem::forget(f);
        }
        2 => {
            let (fd, n, fixed) = any_fd(&sq);
            let how: u8 = kani::any();
            kani::assume(how < 3);
            let h = match how { 0 => std::net::Shutdown::Read, 1 => std::net::Shutdown::Write, _ => std::net::Shutdown::Both };
            let mut f = fd.shutdown(h);
            want.opcode = 34;
            want.fd = n;
            want.flags = fixed;
            want.len = how as u32; // SHUT_RD=0, SHUT_WR=1, SHUT_RDWR=2
            assert!(submit(&mut f) == want, "shutdown(2)");
            std::mem::forget(f);
        }
        _ => {
            let direct: bool = kani::any();
            let flags: u32 = kani::any();
            let mut f = crate::pipe::pipe(sq.clone());
            if direct {
                f = f.kind(Kind::Direct);
            }
            f = f.flags(crate::pipe::PipeFlag(flags));
            let e = submit(&mut f);
            want.opcode = e.opcode;
            assert!(u32::from(e.opcode) == crate::io_uring::verif_kernel::op_pipe(), "IORING_OP_PIPE");
            want.addr = crate::pipe::verif_pipesup::pipe_res_addr(&f) as u64;
            want.op_flags = flags | if direct { 0 } else { O_CLOEXEC };
            want.file_index = if direct { FILE_INDEX_ALLOC } else { 0 };
            assert!(e == want, "pipe2(2)");
            std::mem::forget(f);
        }
    }
    kani::cover!(which == 3);
    std::mem::forget(sq);
}

//@ prop: C13
//@ tier: quick
//@ what: send (+flags,+zc): SEND/SEND_ZC{fd, addr = data, len, msg_flags}; recv (+flags): RECV{fd, addr = first spare byte, len = spare, msg_flags}; multishot_recv (+flags): RECV{fd, ioprio = RECV_MULTISHOT, BUFFER_SELECT, buf_group = pool group, msg_flags}; multishot_read: READ_MULTISHOT{fd, BUFFER_SELECT, buf_group}
//@ bound: fd/kind, fill, flags, zero-copy symbolic; pool group 7
//@ encodes: AsyncFd::{send,recv,multishot_recv,multishot_read}; Send::{flags,zc}; Recv::flags; io_uring::net::{SendOp,RecvOp,MultishotRecvOp}::fill_submission; io_uring::io::MultishotReadOp::fill_submission
//@ stubs: as c13_read_write
fn c13_send_recv() {
    let sq = sq();
    let (fd, n, fixed) = any_fd(&sq);
    let len: usize = kani::any();
    kani::assume(len <= 4);
    let flags: u32 = kani::any();
    let set_flags: bool = kani::any();
    let which: u8 = kani::any();
    kani::assume(which < 4);
    let mut want = ZERO_SQE;
    want.fd = n;
    want.flags = fixed;
    want.op_flags = if set_flags { flags } else { 0 };
    match which {
        0 => {
            let buf = vec4(len);
            let base = buf.as_ptr().addr() as u64;
            let zc: bool = kani::any();
            let mut f = fd.send(buf);
            if set_flags {
                f = f.flags(crate::net::SendFlag(flags));
            }
            if zc {
                f = f.zc();
            }
            want.opcode = if zc { 47 } else { 26 };
            want.addr = base;
            want.len = len as u32;
            assert!(submit(&mut f) == want, "send(2)");
            kani::cover!(zc && set_flags);
            std::mem::forget(f);
        }
        1 => {
            let buf = vec4(len);
            let base = buf.as_ptr().addr() as u64;
            let mut f = fd.recv(buf);
            if set_flags {
                f = f.flags(crate::net::RecvFlag(flags));
            }
            want.opcode = 27;
            want.addr = base + len as u64;
            want.len = 4 - len as u32;
            assert!(submit(&mut f) == want, "recv(2)");
            std::mem::forget(f);
        }
        2 => {
            let rig = crate::io_uring::io::verif_c15::rig_with(2, 0);
            let pool = crate::io::ReadBufPool { shared: rig.pool.clone() };
            let mut f = fd.multishot_recv(pool);
            if set_flags {
                f = f.flags(crate::net::RecvFlag(flags));
            }
            let w = k::waker(0);
            let mut ctx = Context::from_waker(&w);
            let r = Pin::new(&mut f).poll_next(&mut ctx);
            assert!(r.is_pending());
            std::mem::forget(r);
            want.opcode = 27;
            want.flags = fixed | IOSQE_BUFFER_SELECT;
            want.ioprio = 2; // IORING_RECV_MULTISHOT
            want.buf_index = 7;
            assert!(ops::last_request() == want, "multishot recv from the buffer group");
            std::mem::forget(f);
            std::mem::forget(rig.pool);
        }
        _ => {
            let rig = crate::io_uring::io::verif_c15::rig_with(2, 0);
            let pool = crate::io::ReadBufPool { shared: rig.pool.clone() };
            let mut f = fd.multishot_read(pool);
            let w = k::waker(0);
            let mut ctx = Context::from_waker(&w);
            let r = Pin::new(&mut f).poll_next(&mut ctx);
            assert!(r.is_pending());
            std::mem::forget(r);
            want.opcode = 49;
            want.flags = fixed | IOSQE_BUFFER_SELECT;
            want.buf_index = 7;
            want.op_flags = 0;
            assert!(ops::last_request() == want, "multishot read from the buffer group");
            std::mem::forget(f);
            std::mem::forget(rig.pool);
        }
    }
    kani::cover!(which == 2 && set_flags);
    kani::cover!(which == 3);
    std::mem::forget(sq);
}

//@ prop: C13 C01
//@ tier: quick
//@ what: connect / bind with an IPv4 address: CONNECT{fd, addr = sockaddr inside the state, off = 16}; BIND{fd, addr, addr2 = 16}; send_to: SEND{fd, addr = data, len, addr2 = sockaddr, addr_len = 16, msg_flags}; accept (+flags): ACCEPT{fd, addr = address buffer, off = &length (both inside the state), accept_flags = flags | SOCK_CLOEXEC (regular), IOSQE_ASYNC, file_index = ALLOC iff the listener is direct}; multishot_accept: same with ioprio = ACCEPT_MULTISHOT and no address
//@ bound: IPv4 address/port symbolic; flags symbolic; fd/kind symbolic
//@ encodes: AsyncFd::{connect,bind,send_to,accept,multishot_accept}; io_uring::net::{ConnectOp,BindOp,SendToOp,AcceptOp,MultishotAcceptOp}::fill_submission
//@ stubs: as c13_read_write
fn c13_addr_ops() {
    use std::net::{Ipv4Addr, SocketAddrV4};
    let sq = sq();
    let (fd, n, fixed) = any_fd(&sq);
    let direct = fixed != 0;
    let ip: [u8; 4] = kani::any();
    let addr = SocketAddrV4::new(Ipv4Addr::from(ip), kani::any());
    let which: u8 = kani::any();
    kani::assume(which < 5);
    let mut want = ZERO_SQE;
    want.fd = n;
    want.flags = fixed;
    match which {
        0 => {
            let mut f = fd.connect(addr);
            let e = submit(&mut f);
            want.opcode = 16;
            want.addr = crate::net::verif_c10n::connect_res_addr(&f) as u64;
            want.off = 16;
            assert!(e == want, "connect(2)");
            let sa = unsafe { &*(e.addr as *const libc::sockaddr_in) };
            assert!(sa.sin_family == libc::AF_INET as u16 && u16::from_be(sa.sin_port) == addr.port());
            std::mem::forget(f);
        }
        1 => {
            let mut f = fd.bind(addr);
            let e = submit(&mut f);
            want.opcode = 56;
            want.addr = crate::net::verif_c10n::bind_res_addr(&f) as u64;
            want.off = 16;
            assert!(e == want, "bind(2)");
            std::mem::forget(f);
        }
        2 => {
            let buf = vec4(3);
            let base = buf.as_ptr().addr() as u64;
            let flags: u32 = kani::any();
            let mut f = fd.send_to(buf, addr).flags(crate::net::SendFlag(flags));
            let e = submit(&mut f);
            want.opcode = 26;
            want.addr = base;
            want.len = 3;
            want.op_flags = flags;
            want.file_index = 16; // addr_len (u16) + padding
            want.off = e.off;
            assert!(e == want, "sendto(2)");
            let sa = unsafe { &*(e.off as *const libc::sockaddr_in) };
            assert!(sa.sin_family == libc::AF_INET as u16 && u16::from_be(sa.sin_port) == addr.port() && sa.sin_addr.s_addr.to_ne_bytes() == ip);
            let ra = crate::net::verif_c10n::send_to_res_addr(&f) as u64;
            assert!(e.off >= ra && e.off < ra + 64, "destination address lives in the operation state");
            std::mem::forget(f);
        }
        3 => {
            let flags: u32 = kani::any();
            let mut f = fd.accept::<SocketAddrV4>().flags(crate::net::AcceptFlag(flags));
            let e = submit(&mut f);
            want.opcode = 13;
            want.flags = fixed | IOSQE_ASYNC;
            want.op_flags = flags | if direct { 0 } else { O_CLOEXEC };
            want.file_index = if direct { FILE_INDEX_ALLOC } else { 0 };
            want.addr = e.addr;
            want.off = e.off;
            assert!(e == want, "accept4(2)");
            let ra = crate::net::verif_c10n::accept_res_addr(&f) as u64;
            assert!(e.addr >= ra && e.addr < ra + 32 && e.off >= ra && e.off < ra + 32, "address and length out-parameters live in the operation state");
            assert!(unsafe { *(e.off as *const u32) } == 16, "length initialised to the size of the address buffer");
            std::mem::forget(f);
        }
        _ => {
            let flags: u32 = kani::any();
            let mut f = fd.multishot_accept().flags(crate::net::AcceptFlag(flags));
            let w = k::waker(0);
            let mut ctx = Context::from_waker(&w);
            let r = Pin::new(&mut f).poll_next(&mut ctx);
            assert!(r.is_pending());
            std::mem::forget(r);
            want.opcode = 13;
            want.flags = fixed | IOSQE_ASYNC;
            want.ioprio = 1; // IORING_ACCEPT_MULTISHOT
            want.op_flags = flags | if direct { 0 } else { O_CLOEXEC };
            want.file_index = if direct { FILE_INDEX_ALLOC } else { 0 };
            assert!(ops::last_request() == want, "multishot accept");
            std::mem::forget(f);
        }
    }
    kani::cover!(which == 2);
    kani::cover!(which == 3 && direct);
    kani::cover!(which == 4);
    std::mem::forget(sq);
}

//@ prop: C13 C01
//@ tier: quick
//@ what: wait (+flags): WAITID{fd = id, len = idtype (P_PID/P_PGID/P_ALL), addr2 = siginfo buffer inside the state, file_index = options}; mem::advise: MADVISE{fd = -1, addr, len, advice}; to_direct_descriptor: FILES_UPDATE{fd = -1, off = ALLOC, addr = &descriptor inside the state, len = 1}; to_file_descriptor: FIXED_FD_INSTALL{fd, flags 0}
//@ bound: all arguments symbolic
//@ encodes: process::wait; process::WaitId::flags; mem::advise; AsyncFd::{to_direct_descriptor,to_file_descriptor}; io_uring::process::WaitIdOp::fill_submission; io_uring::mem::AdviseOp::fill_submission; io_uring::fd::{ToDirectOp,ToFdOp}::fill_submission
//@ stubs: as c13_read_write
fn c13_misc_ops() {
    let sq = sq();
    let which: u8 = kani::any();
    kani::assume(which < 4);
    let mut want = ZERO_SQE;
    match which {
        0 => {
            let id: u32 = kani::any();
            let sel: u8 = kani::any();
            kani::assume(sel < 3);
            let on = match sel { 0 => crate::process::WaitOn::Process(id), 1 => crate::process::WaitOn::Group(id), _ => crate::process::WaitOn::All };
            let opts: u32 = kani::any();
            let mut f = crate::process::wait(sq.clone(), on).flags(crate::process::WaitOption(opts));
            let e = submit(&mut f);
            want.opcode = 50;
            want.fd = if sel == 2 { 0 } else { id as i32 };
            want.len = match sel { 0 => 1, 1 => 2, _ => 0 }; // P_PID, P_PGID, P_ALL
            want.file_index = opts;
            want.off = crate::process::verif_procsup::wait_id_res_addr(&f) as u64;
            assert!(e == want, "waitid(2)");
            std::mem::forget(f);
        }
        1 => {
            let (addr, len, adv): (usize, u32, u32) = (kani::any(), kani::any(), kani::any());
            let mut f = crate::mem::advise(sq.clone(), addr as *mut (), len, crate::mem::AdviseFlag(adv));
            want.opcode = 25;
            want.fd = -1;
            want.addr = addr as u64;
            want.len = len;
            want.op_flags = adv;
            assert!(submit(&mut f) == want, "madvise(2)");
            std::mem::forget(f);
        }
        2 => {
            let n: i32 = kani::any();
            kani::assume(n >= 0);
            let fd = ManuallyDrop::new(unsafe { AsyncFd::from_raw(n, Kind::File, sq.clone()) });
            let mut f = fd.to_direct_descriptor();
            let e = submit(&mut f);
            want.opcode = 20;
            want.fd = -1;
            // liburing passes the int IORING_FILE_INDEX_ALLOC (-1) widened to 64 bits;
            // the kernel reads the low 32 bits of sqe->off
            want.off = u64::MAX;
            want.len = 1;
            want.addr = e.addr;
            assert!(e == want, "IORING_OP_FILES_UPDATE with index allocation");
            assert!(unsafe { *(e.addr as *const i32) } == n, "the descriptor to register");
            let ra = crate::io_uring::fd::verif_c07::to_direct_res_addr(&f) as u64;
            assert!(e.addr >= ra && e.addr < ra + 16, "in/out slot lives in the operation state");
            std::mem::forget(f);
        }
        _ => {
            let n: i32 = kani::any();
            kani::assume(n >= 0 && n < i32::MAX);
            let fd = ManuallyDrop::new(unsafe { AsyncFd::from_raw(n, Kind::Direct, sq.clone()) });
            let mut f = fd.to_file_descriptor();
            want.opcode = 54;
            want.fd = n;
            want.flags = IOSQE_FIXED_FILE;
            assert!(submit(&mut f) == want, "IORING_OP_FIXED_FD_INSTALL");
            std::mem::forget(f);
        }
    }
    kani::cover!(which == 0);
    kani::cover!(which == 2);
    std::mem::forget(sq);
}

//@ prop: C13 C01
//@ tier: quick
//@ what: Signals::receive: read(2) of one signalfd_siginfo from the signalfd: READ{fd, off = -1 (current position), addr = the info buffer inside the operation state, len = 128 = sizeof(struct signalfd_siginfo)}, IOSQE_ASYNC, FIXED_FILE iff direct; the SignalInfo accessors return ssi_signo / ssi_pid / ssi_uid read at their uapi byte offsets (0, 12, 16) for every record content; Ring::pollable's request: POLL_ADD{fd = the watched ring's descriptor, poll32_events = EPOLLIN|EPOLLHUP|EPOLLERR|EPOLLET|EPOLLEXCLUSIVE, len = IORING_POLL_ADD_MULTI}
//@ bound: fd/kind symbolic; the 20 leading bytes of the record symbolic (the rest zero)
//@ encodes: process::Signals::receive; <io_uring::process::ReceiveSignalOp as FdOp>::fill_submission; process::SignalInfo::{signal,pid,real_user_id}; io_uring::process::{signal,pid,real_user_id}; <io_uring::poll::PollableOp as op::Iter>::poll_next (request closure)
//@ stubs: as c13_read_write
//@ assumes: the Pollable is built with poll::Pollable::new as Ring::pollable does (its same-ring assertion is not exercised; the model has one ring descriptor)
fn c13_signal_receive_and_pollable() {
    let sq = sq();
    let which: u8 = kani::any();
    kani::assume(which < 3);
    let mut want = ZERO_SQE;
    match which {
        0 => {
            let n: i32 = kani::any();
            kani::assume(n >= 0 && n < i32::MAX);
            let direct: bool = kani::any();
            let fd = unsafe { AsyncFd::from_raw(n, if direct { Kind::Direct } else { Kind::File }, sq.clone()) };
            let signals = crate::process::verif_procsup::signals_around(fd);
            let mut f = signals.receive();
            let e = submit(&mut f);
            want.opcode = 22; // IORING_OP_READ
            want.fd = n;
            want.flags = (if direct { IOSQE_FIXED_FILE } else { 0 }) | IOSQE_ASYNC;
            want.off = NO_OFFSET;
            want.len = 128;
            want.addr = e.addr;
            assert!(e == want, "read(2) of one signalfd_siginfo");
            let ra = crate::process::verif_procsup::receive_signal_res_addr(&f) as u64;
            assert!(e.addr == ra, "the record is read into the operation's own state");
            kani::cover!(direct);
            std::mem::forget(f);
        }
        1 => {
            // the record by uapi byte offset: ssi_signo @0, ssi_errno @4, ssi_code @8, ssi_pid @12, ssi_uid @16
            let words: [u32; 5] = [kani::any(), kani::any(), kani::any(), kani::any(), kani::any()];
            let info = crate::process::verif_procsup::signal_info_from_words(words);
            let (signo, pid, uid) = (words[0], words[3], words[4]);
            assert!(crate::process::verif_procsup::signal_number(info.signal()) == signo as i32, "ssi_signo");
            assert!(info.pid() == pid, "ssi_pid");
            assert!(info.real_user_id() == uid, "ssi_uid");
            kani::cover!(pid != uid && signo != pid);
        }
        _ => {
            let state = crate::poll::PollableState::new(sq.clone());
            let mut f = crate::poll::Pollable::new(sq.clone(), state, ());
            let w = k::waker(0);
            let mut ctx = Context::from_waker(&w);
            let r = Pin::new(&mut f).poll_next(&mut ctx);
            assert!(r.is_pending());
            std::mem::forget(r);
            assert!(ops::requests() == 1, "exactly one request");
            want.opcode = 6; // IORING_OP_POLL_ADD
            want.fd = k::RING_FD;
            want.len = 1; // IORING_POLL_ADD_MULTI
            // EPOLLIN 0x1 | EPOLLERR 0x8 | EPOLLHUP 0x10 | EPOLLEXCLUSIVE 1<<28 | EPOLLET 1<<31
            want.op_flags = 0x1 | 0x8 | 0x10 | (1 << 28) | (1 << 31);
            assert!(ops::last_request() == want, "multishot poll of the other ring's descriptor");
            std::mem::forget(f);
        }
    }
    kani::cover!(which == 0);
    kani::cover!(which == 2);
    std::mem::forget(sq);
}

}


//@ prop: C13
//@ tier: quick
//@ what: decoding of statx results: modified/accessed/created equal UNIX_EPOCH + tv_sec + tv_nsec for every timestamp the kernel can report, including times before 1970 (negative tv_sec); length, block size, type and permission bits are the fields the kernel wrote
//@ bound: tv_sec any i64 in (-2^40, 2^40), tv_nsec in 0..10^9; other fields symbolic
//@ encodes: io_uring::fs::{modified,accessed,created,timestamp,len,block_size,file_type,permissions,filled}
#[kani::proof]
#[kani::unwind(3)]
fn c13_decode_statx() {
    use std::time::{Duration, SystemTime};
    let mut st: crate::io_uring::fs::Stat = unsafe { std::mem::zeroed() };
    let sec: i64 = kani::any();
    kani::assume(sec > -(1 << 40) && sec < (1 << 40));
    let nsec: u32 = kani::any();
    kani::assume(nsec < 1_000_000_000);
    let which: u8 = kani::any();
    kani::assume(which < 3);
    match which {
        0 => { st.stx_mtime.tv_sec = sec; st.stx_mtime.tv_nsec = nsec; }
        1 => { st.stx_atime.tv_sec = sec; st.stx_atime.tv_nsec = nsec; }
        _ => { st.stx_btime.tv_sec = sec; st.stx_btime.tv_nsec = nsec; }
    }
    st.stx_size = kani::any();
    st.stx_blksize = kani::any();
    st.stx_mode = kani::any();
    st.stx_mask = kani::any();
    let got = match which {
        0 => crate::io_uring::fs::modified(&st),
        1 => crate::io_uring::fs::accessed(&st),
        _ => crate::io_uring::fs::created(&st),
    };
    let want = if sec >= 0 {
        SystemTime::UNIX_EPOCH + Duration::new(sec as u64, nsec)
    } else {
        SystemTime::UNIX_EPOCH - Duration::from_secs(sec.unsigned_abs()) + Duration::from_nanos(u64::from(nsec))
    };
    assert!(got == want, "timestamp is UNIX_EPOCH + tv_sec + tv_nsec");
    assert!(crate::io_uring::fs::len(&st) == st.stx_size && crate::io_uring::fs::block_size(&st) == st.stx_blksize);
    assert!(crate::io_uring::fs::file_type(&st).0 == st.stx_mode && crate::io_uring::fs::permissions(&st).0 == st.stx_mode);
    assert!(crate::io_uring::fs::filled(&st).0 == st.stx_mask);
    kani::cover!(sec < 0 && nsec > 0, "before 1970");
    kani::cover!(sec > 0);
}

//@ prop: C13
//@ tier: quick
//@ what: Metadata / FileType / Permissions accessors agree with the POSIX macros on the mode the kernel reported, for EVERY 16-bit st_mode: is_file == S_ISREG, is_dir == S_ISDIR, is_symlink == S_ISLNK, is_socket == S_ISSOCK, is_block_device == S_ISBLK, is_character_device == S_ISCHR, is_named_pipe == S_ISFIFO (the type is the whole S_IFMT field, not one bit), and the nine permission predicates are the nine rwx bits; Metadata's shortcuts agree with its FileType
//@ bound: stx_mode any u16
//@ encodes: fs::Metadata::{file_type,is_dir,is_file,is_symlink,permissions,len,block_size,filled}; fs::FileType::is_*; fs::Permissions::*_can_*
#[kani::proof]
#[kani::unwind(3)]
fn c13_decode_mode() {
    let mut st: crate::io_uring::fs::Stat = unsafe { std::mem::zeroed() };
    let mode: u16 = kani::any();
    st.stx_mode = mode;
    st.stx_size = kani::any();
    st.stx_blksize = kani::any();
    let size = st.stx_size;
    let blk = st.stx_blksize;
    let md = crate::fs::Metadata(st);
    let ty = md.file_type();
    // POSIX: S_IFMT = 0o170000; S_IFSOCK 0o140000, S_IFLNK 0o120000, S_IFREG 0o100000,
    // S_IFBLK 0o060000, S_IFDIR 0o040000, S_IFCHR 0o020000, S_IFIFO 0o010000
    let fmt = mode & 0o170000;
    assert!(ty.is_file() == (fmt == 0o100000), "is_file == S_ISREG");
    assert!(ty.is_dir() == (fmt == 0o040000), "is_dir == S_ISDIR");
    assert!(ty.is_symlink() == (fmt == 0o120000), "is_symlink == S_ISLNK");
    assert!(ty.is_socket() == (fmt == 0o140000), "is_socket == S_ISSOCK");
    assert!(ty.is_block_device() == (fmt == 0o060000), "is_block_device == S_ISBLK");
    assert!(ty.is_character_device() == (fmt == 0o020000), "is_character_device == S_ISCHR");
    assert!(ty.is_named_pipe() == (fmt == 0o010000), "is_named_pipe == S_ISFIFO");
    assert!(md.is_file() == ty.is_file() && md.is_dir() == ty.is_dir() && md.is_symlink() == ty.is_symlink());
    let p = md.permissions();
    assert!(p.owner_can_read() == (mode & 0o400 != 0) && p.owner_can_write() == (mode & 0o200 != 0) && p.owner_can_execute() == (mode & 0o100 != 0));
    assert!(p.group_can_read() == (mode & 0o040 != 0) && p.group_can_write() == (mode & 0o020 != 0) && p.group_can_execute() == (mode & 0o010 != 0));
    assert!(p.others_can_read() == (mode & 0o004 != 0) && p.others_can_write() == (mode & 0o002 != 0) && p.others_can_execute() == (mode & 0o001 != 0));
    assert!(md.len() == size && md.block_size() == blk);
    kani::cover!(fmt == 0o140000, "socket");
    kani::cover!(fmt == 0o120000, "symlink");
    kani::cover!(fmt == 0o100000 && mode & 0o777 == 0o640);
}
