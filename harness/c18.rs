//@@ attach: src/io_uring/config.rs
//! C18: ring construction is all-or-nothing and honours its configuration.
//!
//! The kernel is the hook table: io_uring_setup records the parameter block
//! and answers symbolically (error, or success with any ONE required feature
//! bit missing), the k-th mmap may fail, IORING_REGISTER_FILES2 may fail.
//! Mappings are heap allocations, so "unmapped" memory is really gone.
#![allow(dead_code, unused_imports, static_mut_refs, clippy::all, clippy::pedantic)]

use std::alloc::{Layout, alloc_zeroed, dealloc};
use std::mem::ManuallyDrop;
use std::ptr::NonNull;
use std::time::Duration;

use crate::io_uring::verif_hooks::Table;
use crate::io_uring::verif_kernel as k;
use crate::io_uring::{Submissions, libc};
use crate::{Ring, SubmissionQueue};

const GRANT_SQ: u32 = 2;
const GRANT_CQ: u32 = 4;
const SQ_ARRAY_OFF: u32 = 64;
const CQES_OFF: u32 = 64;
const REQUIRED: u32 = libc::IORING_FEAT_NODROP
    | libc::IORING_FEAT_SUBMIT_STABLE
    | libc::IORING_FEAT_RW_CUR_POS
    | libc::IORING_FEAT_SQPOLL_NONFIXED;

struct Kernel {
    // script
    setup_errno: i32,
    missing_feature: u32,
    fail_mmap: u32, // 0 = none, k = the k-th call fails
    fail_register: bool,
    // observations
    setup_calls: u32,
    params: libc::io_uring_params,
    entries_arg: u32,
    mmap_calls: u32,
    maps: [(usize, usize, i64, i32); 3], // addr, len, offset, fd
    live: [bool; 3],
    bad_unmap: bool,
    register_calls: u32,
    register_op: u32,
    register_nr: u32,
    register_flags: u32,
    register_nr_args: u32,
    fd_drops: u32,
    /// see verif_stubs::V
    magic: u64,
}

static mut KERNEL: Kernel = {
    let mut k: Kernel = unsafe { std::mem::zeroed() };
    k.magic = 0x5EED_A10C_0000_0018;
    k
};

fn kern() -> &'static mut Kernel {
    unsafe { &mut *(&raw mut KERNEL) }
}

unsafe fn model_setup(entries: libc::c_uint, p: *mut libc::io_uring_params) -> libc::c_int {
    let kn = kern();
    kn.setup_calls += 1;
    kn.entries_arg = entries;
    kn.params = unsafe { std::ptr::read(p) };
    if kn.setup_errno != 0 {
        unsafe { *libc::__errno_location() = kn.setup_errno };
        return -1;
    }
    let p = unsafe { &mut *p };
    p.sq_entries = GRANT_SQ;
    p.cq_entries = GRANT_CQ;
    p.features = REQUIRED & !kn.missing_feature;
    p.sq_off.head = 0;
    p.sq_off.tail = 4;
    p.sq_off.ring_mask = 8;
    p.sq_off.ring_entries = 12;
    p.sq_off.flags = 16;
    p.sq_off.dropped = 20;
    p.sq_off.array = SQ_ARRAY_OFF;
    p.cq_off.head = 0;
    p.cq_off.tail = 4;
    p.cq_off.ring_mask = 8;
    p.cq_off.ring_entries = 12;
    p.cq_off.overflow = 16;
    p.cq_off.cqes = CQES_OFF;
    p.cq_off.flags = 20;
    k::RING_FD
}

unsafe fn model_mmap(
    len: libc::size_t,
    _prot: libc::c_int,
    _flags: libc::c_int,
    fd: libc::c_int,
    offset: libc::off_t,
) -> std::io::Result<NonNull<libc::c_void>> {
    let kn = kern();
    kn.mmap_calls += 1;
    if kn.fail_mmap == kn.mmap_calls {
        return Err(std::io::Error::from_raw_os_error(libc::ENOMEM));
    }
    let slot = (kn.mmap_calls - 1) as usize;
    if slot >= 3 || len == 0 {
        kn.bad_unmap = true;
        return Err(std::io::Error::from_raw_os_error(libc::EINVAL));
    }
    let ptr = unsafe { alloc_zeroed(Layout::from_size_align_unchecked(len, 64)) };
    kn.maps[slot] = (ptr.addr(), len, offset as i64, fd);
    kn.live[slot] = true;
    Ok(unsafe { NonNull::new_unchecked(ptr.cast()) })
}

unsafe fn model_munmap(addr: NonNull<libc::c_void>, len: libc::size_t) -> std::io::Result<()> {
    let kn = kern();
    let a = addr.as_ptr().addr();
    let mut found = false;
    let mut i = 0;
    while i < 3 {
        if kn.live[i] && kn.maps[i].0 == a && kn.maps[i].1 == len && !found {
            kn.live[i] = false;
            found = true;
            unsafe { dealloc(addr.as_ptr().cast(), Layout::from_size_align_unchecked(len, 64)) };
        }
        i += 1;
    }
    if !found {
        // not a live mapping, or wrong length: munmap(2) would unmap something else
        kn.bad_unmap = true;
    }
    Ok(())
}

unsafe fn model_register(
    _fd: libc::c_int,
    op: libc::c_uint,
    arg: *const libc::c_void,
    nr_args: libc::c_uint,
) -> libc::c_int {
    let kn = kern();
    kn.register_calls += 1;
    kn.register_op = op;
    kn.register_nr_args = nr_args;
    if op == libc::IORING_REGISTER_FILES2 {
        let r = unsafe { &*arg.cast::<libc::io_uring_rsrc_register>() };
        kn.register_nr = r.nr;
        kn.register_flags = r.flags;
    }
    if kn.fail_register {
        unsafe { *libc::__errno_location() = libc::ENOMEM };
        return -1;
    }
    0
}

/// Kani stub for `<OwnedFd as Drop>::drop`: count instead of close(2).
fn owned_fd_drop(_fd: &mut std::os::fd::OwnedFd) {
    kern().fd_drops += 1;
}

fn live_maps() -> u32 {
    let kn = kern();
    kn.live[0] as u32 + kn.live[1] as u32 + kn.live[2] as u32
}

fn install() {
    let kn = kern();
    *kn = unsafe { std::mem::zeroed() };
    kn.magic = 0x5EED_A10C_0000_0018;
    k::install(Table {
        io_uring_setup: Some(model_setup),
        mmap: Some(model_mmap),
        munmap: Some(model_munmap),
        io_uring_register: Some(model_register),
        ..Table::EMPTY
    });
}

//@ prop: C18 C12
//@ tier: quick
//@ what: Config::build for a symbolic configuration against a kernel that may refuse at every point: (1) the parameter block sent to io_uring_setup is exactly the configuration (flags incl. always SUBMIT_ALL|NO_SQARRAY and COOP_TASKRUN iff no kernel thread, sizes, cpu, idle, wq_fd); (2) on Err no mapping is left and the ring fd was closed exactly once (never, if setup itself failed), munmap only ever called with a live (address,length); (3) on Ok exactly three mappings with the lengths/offsets the kernel's answer implies, queue sizes as granted, direct-descriptor table registered sparse with the requested size; dropping the halves returns to zero mappings and closes the fd once
//@ bound: queue sizes requested: any u32 (+CQ size option, clamp); every boolean option and cpu/idle/direct-descriptor/attach option symbolic; kernel grants SQ=2, CQ=4; faults: setup errno, each of the 4 required feature bits missing, 1st/2nd/3rd mmap failing, FILES2 registration failing
//@ encodes: config::Config::build; io_uring::config::Config::build_sys; io_uring::Shared::new; io_uring::cq::Completions::new; io_uring::mmap; io_uring::munmap; <io_uring::Shared as Drop>::drop; <io_uring::cq::Completions as Drop>::drop; io_uring::Shared::register
//@ stubs: <std::os::fd::OwnedFd as Drop>::drop -> counter; <core::io::CustomOwner as Drop>::drop -> no-op
//@ replay: kani-only (the fd-close counter is a Kani stub of std's OwnedFd::drop)
#[kani::proof]
#[kani::unwind(5)]
#[kani::stub(<std::os::fd::OwnedFd as std::ops::Drop>::drop, owned_fd_drop)]
#[kani::stub(<core::io::CustomOwner as core::ops::Drop>::drop, crate::verif_stubs::custom_owner_drop_noop)]
fn c18_build_faults() {
    install();
    let kn = kern();
    // --- fault script -----------------------------------------------------
    let fault: u8 = kani::any();
    kani::assume(fault < 10);
    match fault {
        0 => {}
        1 => kn.setup_errno = libc::ENOSYS,
        2 => kn.missing_feature = libc::IORING_FEAT_NODROP,
        3 => kn.missing_feature = libc::IORING_FEAT_SUBMIT_STABLE,
        4 => kn.missing_feature = libc::IORING_FEAT_RW_CUR_POS,
        5 => kn.missing_feature = libc::IORING_FEAT_SQPOLL_NONFIXED,
        6 => kn.fail_mmap = 1,
        7 => kn.fail_mmap = 2,
        8 => kn.fail_mmap = 3,
        _ => kn.fail_register = true,
    }
    // --- configuration ----------------------------------------------------
    // attach target: a queue over the static SQ memory (fd RING_FD)
    k::sq_set(0, 0);
    let other = ManuallyDrop::new(SubmissionQueue(Submissions::new(k::build_shared(2, false, false))));
    let sq_size: u32 = kani::any();
    let mut cfg = Ring::config().with_submission_queue_size(sq_size);
    let cq_size: Option<u32> = if kani::any() { Some(kani::any()) } else { None };
    if let Some(n) = cq_size {
        cfg = cfg.with_completion_queue_size(n);
    }
    let clamp: bool = kani::any();
    if clamp {
        cfg = cfg.with_maximum_queue_size();
    }
    let single: bool = kani::any();
    if single {
        cfg = cfg.single_issuer();
    }
    let defer: bool = kani::any();
    if defer {
        cfg = cfg.defer_task_run();
    }
    let kthread: bool = kani::any();
    if kthread {
        cfg = cfg.with_kernel_thread();
    }
    let cpu: Option<u32> = if kani::any() { Some(kani::any()) } else { None };
    if let Some(c) = cpu {
        cfg = cfg.with_cpu_affinity(c);
    }
    let idle_ms: Option<u32> = if kani::any() { Some(kani::any()) } else { None };
    if let Some(ms) = idle_ms {
        cfg = cfg.with_idle_timeout(Duration::from_millis(u64::from(ms)));
    }
    let direct: Option<u32> = if kani::any() { Some(kani::any()) } else { None };
    if let Some(n) = direct {
        cfg = cfg.with_direct_descriptors(n);
    }
    let disabled: bool = kani::any();
    if disabled {
        cfg = cfg.disable();
    }
    let attach: bool = kani::any();
    if attach {
        cfg = cfg.attach_queue(&other);
    }

    let res = cfg.build();

    // --- (1) parameter block ------------------------------------------------
    assert!(kn.setup_calls == 1);
    let p = &kn.params;
    let mut want = libc::IORING_SETUP_SUBMIT_ALL | libc::IORING_SETUP_NO_SQARRAY;
    want |= if kthread { libc::IORING_SETUP_SQPOLL } else { libc::IORING_SETUP_COOP_TASKRUN };
    if disabled {
        want |= libc::IORING_SETUP_R_DISABLED;
    }
    if single {
        want |= libc::IORING_SETUP_SINGLE_ISSUER;
    }
    if defer {
        want |= libc::IORING_SETUP_DEFER_TASKRUN;
    }
    if cq_size.is_some() {
        want |= libc::IORING_SETUP_CQSIZE;
    }
    if clamp {
        want |= libc::IORING_SETUP_CLAMP;
    }
    if cpu.is_some() {
        want |= libc::IORING_SETUP_SQ_AFF;
    }
    if attach {
        want |= libc::IORING_SETUP_ATTACH_WQ;
    }
    assert!(p.flags == want, "setup flags are exactly the configuration");
    let want_sq = if clamp { u32::MAX } else { sq_size };
    assert!(p.sq_entries == want_sq && kn.entries_arg == want_sq, "requested submission queue size");
    assert!(p.cq_entries == cq_size.unwrap_or(0), "requested completion queue size");
    assert!(p.sq_thread_cpu == cpu.unwrap_or(0) && p.sq_thread_idle == idle_ms.unwrap_or(0));
    assert!(p.wq_fd == if attach { k::RING_FD as u32 } else { 0 });
    assert!(p.features == 0 && p.resv[0] == 0 && p.resv[1] == 0 && p.resv[2] == 0);

    // --- (2)/(3) outcome -----------------------------------------------------
    assert!(!kn.bad_unmap, "munmap only with the (address, length) of a live mapping");
    let must_fail = fault != 0 && !(fault == 9 && direct.is_none());
    match res {
        Err(e) => {
            assert!(must_fail, "kernel accepted everything: build must succeed");
            assert!(live_maps() == 0, "failed build leaves no mapping behind");
            assert!(kn.fd_drops == if fault == 1 { 0 } else { 1 }, "ring fd closed exactly once on failure");
            std::mem::forget(e);
        }
        Ok(ring) => {
            assert!(!must_fail, "a refused step must fail the build");
            assert!(kn.mmap_calls == 3 && live_maps() == 3, "exactly three mappings");
            assert!(kn.fd_drops == 0);
            assert!(kn.maps[0].1 == (SQ_ARRAY_OFF + GRANT_SQ * 4) as usize && kn.maps[0].2 == libc::IORING_OFF_SQ_RING as i64);
            assert!(kn.maps[1].1 == (GRANT_SQ * 64) as usize && kn.maps[1].2 == libc::IORING_OFF_SQES as i64);
            assert!(kn.maps[2].1 == (CQES_OFF + GRANT_CQ * 16) as usize && kn.maps[2].2 == libc::IORING_OFF_CQ_RING as i64);
            assert!(kn.maps[0].3 == k::RING_FD && kn.maps[1].3 == k::RING_FD && kn.maps[2].3 == k::RING_FD);
            let sh = ring.sq.shared();
            assert!(sh.submissions_len == GRANT_SQ, "queue size as granted by the kernel");
            assert!(sh.kernel_thread == kthread && sh.single_issuer == single, "modes as configured");
            assert!(sh.submissions_head.as_ptr().addr() == kn.maps[0].0 && sh.submissions_tail.as_ptr().addr() == kn.maps[0].0 + 4);
            assert!(sh.kernel_flags.as_ptr().addr() == kn.maps[0].0 + 16);
            assert!(sh.submissions.as_ptr().addr() == kn.maps[1].0);
            match direct {
                Some(n) => {
                    assert!(kn.register_calls == 1 && kn.register_op == libc::IORING_REGISTER_FILES2);
                    assert!(kn.register_nr == n && kn.register_flags == libc::IORING_RSRC_REGISTER_SPARSE);
                    assert!(kn.register_nr_args as usize == std::mem::size_of::<libc::io_uring_rsrc_register>());
                }
                None => assert!(kn.register_calls == 0),
            }
            // tear the two halves down without Ring::drop (that path is C12)
            let ring = ManuallyDrop::new(ring);
            let cq = unsafe { std::ptr::read(&ring.cq) };
            let sq = unsafe { std::ptr::read(&ring.sq) };
            drop(cq);
            assert!(live_maps() == 2);
            drop(sq);
            assert!(live_maps() == 0, "all three mappings released");
            assert!(kn.fd_drops == 1, "ring fd closed exactly once");
            assert!(!kn.bad_unmap);
        }
    }
    kani::cover!(fault == 0 && direct.is_some() && attach && kthread);
    kani::cover!(fault == 7, "second mapping fails");
    kani::cover!(fault == 8, "third mapping fails");
    kani::cover!(fault == 9 && direct.is_some(), "registration fails");
    kani::cover!(fault == 9 && direct.is_none(), "no registration requested: build succeeds");
    kani::cover!(fault == 4);
}
