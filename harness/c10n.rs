//@@ attach: src/net.rs
//! C10 (socket side): send_all, send_all_vectored, recv_n, recv_n_vectored.
//! Same construction as harness/c10.rs.
#![allow(dead_code, unused_imports, static_mut_refs, clippy::all, clippy::pedantic)]

use std::future::Future;
use std::pin::Pin;
use std::task::{Context, Poll};

use super::{
    AddressStorage, NoAddress, Recv, RecvFlag, RecvN, RecvNVectored, RecvVectored, Send, SendAll, SendAllVectored,
    SendCall, SendFlag, SendMsg,
};
use crate::extract::Extractor;
use crate::io::verif_c10::{FD, rig, vec6};
use crate::io::{Buf, BufMut, BufMutSlice, BufSlice, ReadNBuf, SkipBuf};
use crate::io_uring::op::verif_opsup as ops;
use crate::io_uring::verif_kernel as k;
use crate::sys::net::MsgHeader;
use crate::verif_stubs::any_vec;

const OP_SENDMSG: u8 = 9;
const OP_RECVMSG: u8 = 10;
const OP_SEND: u8 = 26;
const OP_RECV: u8 = 27;
const OP_SEND_ZC: u8 = 47;
const OP_SENDMSG_ZC: u8 = 48;

//@ prop: C10
//@ tier: quick
//@ what: SendAll, one poll after the kernel accepted n bytes: finished iff all bytes handed over; otherwise exactly one SEND/SEND_ZC for exactly the unsent suffix with the SAME flags and zero-copy mode the caller chose; n == 0 -> WriteZero
//@ bound: buffer 6 bytes; skip < 6, n <= 6-skip, flags any u32, zero-copy on/off -- symbolic
//@ encodes: net::SendAll::poll_inner; <io_uring::net::SendOp as FdOp>::fill_submission; io_uring::op::State::reset
//@ stubs: io_uring::op::poll -> two-arm model (harness/opsup.rs); <core::io::CustomOwner as Drop>::drop -> no-op
#[kani::proof]
#[kani::unwind(3)]
#[kani::stub(crate::io_uring::op::poll, crate::io_uring::op::verif_opsup::poll_model)]
#[kani::stub(<core::io::CustomOwner as core::ops::Drop>::drop, crate::verif_stubs::custom_owner_drop_noop)]
fn c10_send_all_continue() {
    let fd = rig();
    let content: [u8; 6] = kani::any();
    let len = 6usize;
    let skip: u32 = kani::any();
    kani::assume((skip as usize) < len);
    let n: usize = kani::any();
    kani::assume(n <= len - skip as usize);
    let flags = SendFlag(kani::any());
    let zc: bool = kani::any();
    let send_op = if zc { SendCall::ZeroCopy } else { SendCall::Normal };
    let buf = vec6(len, &content);
    let base = buf.as_ptr();
    let mut fut = SendAll {
        send: Extractor { fut: Send::new(&fd, SkipBuf { buf, skip }, (send_op, flags)) },
        send_op,
        flags,
    };
    ops::force_done(&mut fut.send.fut.state, n as i32, 0);
    ops::model_reset();
    let w = k::waker(0);
    let mut ctx = Context::from_waker(&w);
    let res = Pin::new(&mut fut).poll(&mut ctx);
    let written = skip as usize + n;
    let requests = ops::requests();
    if n == 0 {
        assert!(matches!(res, Poll::Ready(Err(ref e)) if e.kind() == std::io::ErrorKind::WriteZero));
        assert!(requests == 0);
    } else if written == len {
        assert!(matches!(res, Poll::Ready(Ok(()))));
        assert!(requests == 0);
    } else {
        assert!(res.is_pending(), "bytes left: not finished");
        assert!(requests == 1, "exactly one continuation request");
        let e = ops::last_request();
        assert!(e.opcode == if zc { OP_SEND_ZC } else { OP_SEND }, "zero-copy mode kept on the continuation");
        assert!(e.fd == FD);
        assert!(e.op_flags == flags.0, "caller's flags kept on the continuation");
        assert!(e.addr == unsafe { base.add(written) }.addr() as u64 && e.len as usize == len - written);
    }
    kani::cover!(res.is_pending() && zc && flags.0 != 0);
    kani::cover!(n > 0 && written == len);
    std::mem::forget(res);
    std::mem::forget(fut);
    std::mem::forget(fd);
}

//@ prop: C10
//@ tier: quick
//@ what: SendAllVectored, one poll after the kernel accepted n bytes: success iff every byte of every buffer was handed over (an empty last buffer must not end it early); otherwise exactly one SENDMSG/SENDMSG_ZC whose iovecs describe exactly the unsent suffix, with the caller's flags and zero-copy mode
//@ bound: N=2 buffers of 0..=3 bytes (empty buffers in any position), total >= 1; skip < total, n <= total-skip, flags any u32, zero-copy on/off
//@ encodes: net::SendAllVectored::poll_inner; <io_uring::net::SendMsgOp as FdOp>::fill_submission; unix::MsgHeader::init_send
//@ stubs: io_uring::op::poll -> two-arm model (harness/opsup.rs); <core::io::CustomOwner as Drop>::drop -> no-op
#[kani::proof]
#[kani::unwind(4)]
#[kani::stub(crate::io_uring::op::poll, crate::io_uring::op::verif_opsup::poll_model)]
#[kani::stub(<core::io::CustomOwner as core::ops::Drop>::drop, crate::verif_stubs::custom_owner_drop_noop)]
fn c10_send_all_vectored_2() {
    let fd = rig();
    let bufs = [any_vec::<3>(), any_vec::<3>()];
    let lens = [bufs[0].len(), bufs[1].len()];
    let bases = [bufs[0].as_ptr(), bufs[1].as_ptr()];
    let total = lens[0] + lens[1];
    kani::assume(total >= 1);
    let skip: usize = kani::any();
    kani::assume(skip < total);
    let n: usize = kani::any();
    kani::assume(n <= total - skip);
    let flags = SendFlag(kani::any());
    let zc: bool = kani::any();
    let send_op = if zc { SendCall::ZeroCopy } else { SendCall::Normal };
    let iovecs = unsafe { bufs.as_iovecs() };
    let resources = (bufs, MsgHeader::empty(), iovecs, AddressStorage(NoAddress));
    let mut fut = SendAllVectored {
        send: Extractor { fut: SendMsg::new(&fd, resources, (send_op, flags)) },
        skip: skip as u64,
        send_op,
        flags,
    };
    ops::force_done(&mut fut.send.fut.state, n as i32, 0);
    ops::model_reset();
    let w = k::waker(0);
    let mut ctx = Context::from_waker(&w);
    let res = Pin::new(&mut fut).poll(&mut ctx);
    let written = skip + n;
    let requests = ops::requests();
    if n == 0 {
        assert!(matches!(res, Poll::Ready(Err(ref e)) if e.kind() == std::io::ErrorKind::WriteZero));
        assert!(requests == 0);
    } else if written == total {
        assert!(matches!(res, Poll::Ready(Ok(()))));
        assert!(requests == 0);
    } else {
        assert!(res.is_pending(), "bytes left: success must not be reported");
        assert!(requests == 1, "exactly one continuation request");
        let e = ops::last_request();
        assert!(e.opcode == if zc { OP_SENDMSG_ZC } else { OP_SENDMSG }, "zero-copy mode kept on the continuation");
        assert!(e.fd == FD && e.len == 1);
        assert!(e.op_flags == flags.0, "caller's flags kept on the continuation");
        let (res_, _) = ops::resources_args(&mut fut.send.fut.state);
        // the message header points at the stored iovecs, no address
        let hdr = unsafe { &*(e.addr as *const libc::msghdr) };
        assert!(hdr.msg_iov as usize == res_.2.as_ptr().addr() && hdr.msg_iovlen == 2);
        assert!(hdr.msg_name.is_null() && hdr.msg_namelen == 0);
        let s0 = core::cmp::min(lens[0], written);
        let s1 = written - s0;
        assert!(res_.2[0].len() == lens[0] - s0 && res_.2[1].len() == lens[1] - s1, "iovecs cover exactly the unsent suffix");
        assert!(lens[0] == s0 || unsafe { res_.2[0].ptr() } == unsafe { bases[0].add(s0) });
        assert!(lens[1] == s1 || unsafe { res_.2[1].ptr() } == unsafe { bases[1].add(s1) });
    }
    kani::cover!(res.is_pending() && lens[1] == 0, "short send with an empty last buffer");
    kani::cover!(res.is_pending() && flags.0 != 0 && zc);
    kani::cover!(n > 0 && written == total);
    std::mem::forget(res);
    std::mem::forget(fut);
    std::mem::forget(fd);
}

//@ prop: C10
//@ tier: quick
//@ what: RecvN, one poll after n bytes arrived with `left` still required: UnexpectedEof iff n == 0; done iff n >= left with the bytes appended to the caller's buffer; otherwise exactly one RECV into the remaining spare capacity with the caller's flags, left decreases by n
//@ bound: Vec capacity 6 with symbolic fill; left 1..=spare; n 0..=spare; flags any u32
//@ encodes: <net::RecvN as Future>::poll; <io_uring::net::RecvOp as FdOp>::{map_ok,fill_submission}
//@ stubs: io_uring::op::poll -> two-arm model (harness/opsup.rs); <core::io::CustomOwner as Drop>::drop -> no-op
//@ assumes: the buffer has at least `left` bytes of spare capacity
#[kani::proof]
#[kani::unwind(3)]
#[kani::stub(crate::io_uring::op::poll, crate::io_uring::op::verif_opsup::poll_model)]
#[kani::stub(<core::io::CustomOwner as core::ops::Drop>::drop, crate::verif_stubs::custom_owner_drop_noop)]
fn c10_recv_n_continue() {
    let fd = rig();
    let buf = any_vec::<6>();
    let len0 = buf.len();
    kani::assume(len0 < 6);
    let base = buf.as_ptr();
    let spare = 6 - len0;
    let left: usize = kani::any();
    kani::assume(left >= 1 && left <= spare);
    let n: usize = kani::any();
    kani::assume(n <= spare);
    let flags = RecvFlag(kani::any());
    let mut fut = RecvN { recv: Recv::new(&fd, ReadNBuf { buf, last_read: kani::any() }, flags), left, flags };
    ops::force_done(&mut fut.recv.state, n as i32, 0);
    ops::model_reset();
    let w = k::waker(0);
    let mut ctx = Context::from_waker(&w);
    let res = Pin::new(&mut fut).poll(&mut ctx);
    let requests = ops::requests();
    if n == 0 {
        assert!(matches!(res, Poll::Ready(Err(ref e)) if e.kind() == std::io::ErrorKind::UnexpectedEof));
        assert!(requests == 0);
    } else if n >= left {
        match res {
            Poll::Ready(Ok(ref b)) => assert!(b.as_ptr() == base && b.len() == len0 + n),
            _ => assert!(false, "enough bytes: must be finished"),
        }
        assert!(requests == 0);
    } else {
        assert!(res.is_pending());
        assert!(requests == 1);
        let e = ops::last_request();
        assert!(e.opcode == OP_RECV && e.fd == FD);
        assert!(e.op_flags == flags.0, "caller's flags kept on the continuation");
        assert!(e.addr == unsafe { base.add(len0 + n) }.addr() as u64 && e.len as usize == spare - n);
        assert!(fut.left == left - n);
    }
    kani::cover!(res.is_pending() && flags.0 != 0);
    kani::cover!(n >= left && n > 0);
    std::mem::forget(res);
    std::mem::forget(fut);
    std::mem::forget(fd);
}

//@ prop: C10
//@ tier: quick
//@ what: RecvNVectored, one poll after n bytes arrived: same decision rule; the continuation RECVMSG's iovecs are the remaining spare capacity in order, flags kept
//@ bound: N=2 Vecs of capacity 3 with symbolic fill; left 1..=spare; n 0..=spare; flags any u32
//@ encodes: <net::RecvNVectored as Future>::poll; <io_uring::net::RecvVectoredOp as FdOp>::{map_ok,fill_submission}; io_uring::net::fill_recvmsg_submission
//@ stubs: io_uring::op::poll -> two-arm model (harness/opsup.rs); <core::io::CustomOwner as Drop>::drop -> no-op
//@ assumes: the buffers have at least `left` bytes of spare capacity
#[kani::proof]
#[kani::unwind(4)]
#[kani::stub(crate::io_uring::op::poll, crate::io_uring::op::verif_opsup::poll_model)]
#[kani::stub(<core::io::CustomOwner as core::ops::Drop>::drop, crate::verif_stubs::custom_owner_drop_noop)]
fn c10_recv_n_vectored_continue() {
    let fd = rig();
    let bufs = [any_vec::<3>(), any_vec::<3>()];
    let lens = [bufs[0].len(), bufs[1].len()];
    let bases = [bufs[0].as_ptr(), bufs[1].as_ptr()];
    let spare = [3 - lens[0], 3 - lens[1]];
    let total_spare = spare[0] + spare[1];
    kani::assume(total_spare >= 1);
    let left: usize = kani::any();
    kani::assume(left >= 1 && left <= total_spare);
    let n: usize = kani::any();
    kani::assume(n <= total_spare);
    let flags = RecvFlag(kani::any());
    let mut rb = ReadNBuf { buf: bufs, last_read: kani::any() };
    let iovecs = unsafe { rb.as_iovecs_mut() };
    let mut fut = RecvNVectored {
        recv: RecvVectored::new(&fd, (rb, MsgHeader::empty(), iovecs), flags),
        left,
        flags,
    };
    ops::force_done(&mut fut.recv.state, n as i32, 0);
    ops::model_reset();
    let w = k::waker(0);
    let mut ctx = Context::from_waker(&w);
    let res = Pin::new(&mut fut).poll(&mut ctx);
    let requests = ops::requests();
    let got0 = core::cmp::min(spare[0], n);
    let got1 = n - got0;
    if n == 0 {
        assert!(matches!(res, Poll::Ready(Err(ref e)) if e.kind() == std::io::ErrorKind::UnexpectedEof));
    } else if n >= left {
        match res {
            Poll::Ready(Ok(ref b)) => {
                assert!(b[0].as_ptr() == bases[0] && b[1].as_ptr() == bases[1]);
                assert!(b[0].len() == lens[0] + got0 && b[1].len() == lens[1] + got1);
            }
            _ => assert!(false, "enough bytes: must be finished"),
        }
    } else {
        assert!(res.is_pending());
        assert!(requests == 1);
        let e = ops::last_request();
        assert!(e.opcode == OP_RECVMSG && e.fd == FD && e.len == 1);
        assert!(e.op_flags == flags.0, "caller's flags kept on the continuation");
        let (res_, _) = ops::resources_args(&mut fut.recv.state);
        let hdr = unsafe { &*(e.addr as *const libc::msghdr) };
        assert!(hdr.msg_iov as usize == res_.2.as_ptr().addr() && hdr.msg_iovlen == 2);
        assert!(res_.2[0].len() == spare[0] - got0 && res_.2[1].len() == spare[1] - got1);
        assert!(fut.left == left - n);
    }
    kani::cover!(res.is_pending() && got1 > 0);
    kani::cover!(n >= left && n > 0);
    std::mem::forget(res);
    std::mem::forget(fut);
    std::mem::forget(fd);
}

//@ prop: C10
//@ tier: quick
//@ what: builder settings of the socket composites reach BOTH the first request's arguments and the record the continuation is built from: recv_n(..).flags(f), recv_n_vectored(..).flags(f), send_all(..).flags(f)[.zc()], send_all_vectored(..).flags(f)[.zc()] -- created through the public API, flags any u32, zero-copy symbolic
//@ bound: one buffer of capacity 6 / two of 3; flags any u32; zc symbolic
//@ encodes: AsyncFd::{recv_n,recv_n_vectored,send_all,send_all_vectored}; net::{RecvN,RecvNVectored,SendAll,SendAllVectored}::{flags,zc}; io_uring::op::State::args_mut
//@ stubs: crate::lock -> try_lock model; <core::io::CustomOwner as Drop>::drop -> no-op
#[kani::proof]
#[kani::unwind(4)]
#[kani::stub(crate::lock, crate::verif_stubs::lock_model)]
#[kani::stub(<core::io::CustomOwner as core::ops::Drop>::drop, crate::verif_stubs::custom_owner_drop_noop)]
fn c10_net_builders() {
    let fd = rig();
    let f: u32 = kani::any();
    let zc: bool = kani::any();
    let which: u8 = kani::any();
    kani::assume(which < 4);
    match which {
        0 => {
            let mut fut = fd.recv_n(Vec::<u8>::with_capacity(6), 3).flags(RecvFlag(f));
            assert!(fut.flags.0 == f, "continuation record has the flags");
            let (_, a) = ops::resources_args(&mut fut.recv.state);
            assert!(a.0 == f, "first request has the flags");
            assert!(fut.left == 3);
            std::mem::forget(fut);
        }
        1 => {
            let mut fut = fd.recv_n_vectored([Vec::<u8>::with_capacity(3), Vec::<u8>::with_capacity(3)], 4).flags(RecvFlag(f));
            assert!(fut.flags.0 == f, "continuation record has the flags");
            let (_, a) = ops::resources_args(&mut fut.recv.state);
            assert!(a.0 == f, "first request has the flags");
            assert!(fut.left == 4);
            std::mem::forget(fut);
        }
        2 => {
            let mut fut = fd.send_all(vec6(6, &[1, 2, 3, 4, 5, 6])).flags(SendFlag(f));
            if zc {
                fut = fut.zc();
            }
            assert!(fut.flags.0 == f, "continuation record has the flags");
            assert!(matches!(fut.send_op, SendCall::ZeroCopy) == zc, "continuation record has the zero-copy mode");
            let (_, a) = ops::resources_args(&mut fut.send.fut.state);
            assert!(a.1.0 == f && matches!(a.0, SendCall::ZeroCopy) == zc, "first request has flags and mode");
            std::mem::forget(fut);
        }
        _ => {
            let mut fut = fd.send_all_vectored([vec6(3, &[1, 2, 3, 4, 5, 6]), vec6(2, &[1, 2, 3, 4, 5, 6])]).flags(SendFlag(f));
            if zc {
                fut = fut.zc();
            }
            assert!(fut.flags.0 == f, "continuation record has the flags");
            assert!(matches!(fut.send_op, SendCall::ZeroCopy) == zc, "continuation record has the zero-copy mode");
            assert!(fut.skip == 0);
            let (_, a) = ops::resources_args(&mut fut.send.fut.state);
            assert!(a.1.0 == f && matches!(a.0, SendCall::ZeroCopy) == zc, "first request has flags and mode");
            std::mem::forget(fut);
        }
    }
    kani::cover!(which == 0 && f != 0);
    kani::cover!(which == 3 && zc);
    std::mem::forget(fd);
}

// Accessors for C13 (the `state` field of these futures is private to `net`).
pub(crate) fn connect_res_addr<A: SocketAddress>(f: &super::Connect<'_, A>) -> usize { ops::resources_addr(&f.state) }
pub(crate) fn bind_res_addr<A: SocketAddress>(f: &super::Bind<'_, A>) -> usize { ops::resources_addr(&f.state) }
pub(crate) fn send_to_res_addr<B: Buf, A: SocketAddress>(f: &super::SendTo<'_, B, A>) -> usize { ops::resources_addr(&f.state) }
pub(crate) fn accept_res_addr<A: SocketAddress>(f: &super::Accept<'_, A>) -> usize { ops::resources_addr(&f.state) }
use super::SocketAddress;

//@ prop: C09
//@ tier: quick
//@ what: re-issuing an accept: the address-length in/out parameter the kernel may have overwritten during the first attempt is RESET to the size of the address storage by the second fill_submission, and the second submission is otherwise identical to the first (same pointers into the same resources, same flags) -- so no data of the first attempt leaks into the second
//@ bound: accept::<SocketAddr> (either family, storage 28 bytes); the first attempt left any length 0..=28 behind (symbolic); accept flags symbolic; regular or direct listener
//@ encodes: <io_uring::net::AcceptOp<SocketAddr> as FdOp>::fill_submission (called twice on the same resources)
//@ stubs: crate::lock -> try_lock model; <core::io::CustomOwner as Drop>::drop -> no-op
#[kani::proof]
#[kani::unwind(3)]
#[kani::stub(crate::lock, crate::verif_stubs::lock_model)]
#[kani::stub(<core::io::CustomOwner as core::ops::Drop>::drop, crate::verif_stubs::custom_owner_drop_noop)]
fn c09_accept_refill_resets_length() {
    use crate::io_uring::net::AcceptOp;
    use crate::io_uring::op::FdOp;
    use std::net::SocketAddr;
    let fd = rig();
    let flags: u32 = kani::any();
    let mut fut = fd.accept::<SocketAddr>().flags(super::AcceptFlag(flags));
    let (res, args) = ops::resources_args(&mut fut.state);
    let mut first = k::new_submission();
    <AcceptOp<SocketAddr> as FdOp>::fill_submission(&fd, res, args, &mut first);
    let e1 = k::submission_view(&first);
    let len_ptr = e1.off as *mut libc::socklen_t;
    assert!(unsafe { *len_ptr } == 28, "first attempt: room for the whole storage");
    // the kernel (or the first, cancelled attempt) left a shorter length behind
    let left_behind: libc::socklen_t = kani::any();
    kani::assume(left_behind <= 28);
    unsafe { *len_ptr = left_behind };
    let mut second = k::new_submission();
    <AcceptOp<SocketAddr> as FdOp>::fill_submission(&fd, res, args, &mut second);
    let e2 = k::submission_view(&second);
    assert!(e2 == e1, "re-issued with the same arguments and the same resources");
    assert!(unsafe { *(e2.off as *const libc::socklen_t) } == 28, "length in/out parameter reset before the second attempt");
    kani::cover!(left_behind == 16);
    kani::cover!(left_behind == 0);
    std::mem::forget(fut);
    std::mem::forget(fd);
}

//@ prop: C13
//@ tier: quick
//@ what: the named constants of the socket API are the numbers of the Linux ABI (socket(2), send(2), recv(2), ip(7)): RecvFlag::{OOB,PEEK,WAIT_ALL,ERR_QUEUE,CMSG_CLOEXEC} = MSG_OOB 0x1, MSG_PEEK 0x2, MSG_WAITALL 0x100, MSG_ERRQUEUE 0x2000, MSG_CMSG_CLOEXEC 0x40000000; SendFlag::{OOB,DONT_ROUTE,EOR,CONFIRM,MORE,FAST_OPEN}; Domain::{UNIX,IPV4,IPV6,PACKET,VSOCK} = 1, 2, 10, 17, 40; Type::{STREAM,DGRAM,RAW,RDM,SEQPACKET,DCCP} = 1..=6; Protocol::{ICMPV4,TCP,UDP,DCCP,ICMPV6,SCTP} = 1, 6, 17, 33, 58, 132; Level::{IPV4,SOCKET,TCP,UDP,IPV6} = 0, 1, 6, 17, 41 -- the numbers are transcribed from the uapi headers, independent of the libc crate the tables are written with
//@ bound: all listed constants
//@ encodes: net::{RecvFlag,SendFlag,Domain,Type,Protocol,Level} constant tables
#[kani::proof]
fn c13_net_constant_tables() {
    use super::{Domain, Level, Protocol, Type};
    assert!(RecvFlag::OOB.0 == 0x1 && RecvFlag::PEEK.0 == 0x2 && RecvFlag::WAIT_ALL.0 == 0x100, "RecvFlag OOB/PEEK/WAIT_ALL");
    assert!(RecvFlag::ERR_QUEUE.0 == 0x2000 && RecvFlag::CMSG_CLOEXEC.0 == 0x4000_0000, "RecvFlag ERR_QUEUE/CMSG_CLOEXEC");
    assert!(SendFlag::OOB.0 == 0x1 && SendFlag::DONT_ROUTE.0 == 0x4 && SendFlag::EOR.0 == 0x80, "SendFlag OOB/DONT_ROUTE/EOR");
    assert!(SendFlag::CONFIRM.0 == 0x800 && SendFlag::MORE.0 == 0x8000 && SendFlag::FAST_OPEN.0 == 0x2000_0000, "SendFlag CONFIRM/MORE/FAST_OPEN");
    assert!(Domain::UNIX.0 == 1 && Domain::IPV4.0 == 2 && Domain::IPV6.0 == 10 && Domain::PACKET.0 == 17 && Domain::VSOCK.0 == 40, "Domain");
    assert!(Type::STREAM.0 == 1 && Type::DGRAM.0 == 2 && Type::RAW.0 == 3 && Type::RDM.0 == 4 && Type::SEQPACKET.0 == 5 && Type::DCCP.0 == 6, "Type");
    assert!(Protocol::ICMPV4.0 == 1 && Protocol::TCP.0 == 6 && Protocol::UDP.0 == 17 && Protocol::DCCP.0 == 33 && Protocol::ICMPV6.0 == 58 && Protocol::SCTP.0 == 132, "Protocol");
    assert!(Level::IPV4.0 == 0 && Level::SOCKET.0 == 1 && Level::TCP.0 == 6 && Level::UDP.0 == 17 && Level::IPV6.0 == 41, "Level");
    kani::cover!(true);
}
