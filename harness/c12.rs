//@@ attach: src/lib.rs
//! C12: teardown. Ring::drop's flush / cancel-all / drain sequence against a
//! model kernel that may fail every call, reclaiming an abandoned operation;
//! and handles dropped after the Ring. (Unmapping exactly what was mapped and
//! closing the ring fd once: C18's teardown assertions.)
#![allow(dead_code, unused_imports, static_mut_refs, clippy::all, clippy::pedantic)]

use std::mem::ManuallyDrop;
use std::sync::atomic::Ordering;

use crate::fd::{AsyncFd, Kind};
use crate::io_uring::cq::verif_c05 as cqh;
use crate::io_uring::op::verif_opsup as ops;
use crate::io_uring::op::{Singleshot, State};
use crate::io_uring::verif_kernel as k;
use crate::op::OpState;
use crate::{Ring, SubmissionQueue};

const IORING_ENTER_GETEVENTS: u32 = 1;
const IORING_ENTER_EXT_ARG: u32 = 8;
const IORING_REGISTER_SYNC_CANCEL: u32 = 24;
const IORING_ASYNC_CANCEL_ALL: u32 = 1;
const IORING_ASYNC_CANCEL_ANY: u32 = 4;

#[derive(Copy, Clone)]
struct Call {
    kind: u8, // 1 = enter, 2 = register
    a: u32,   // enter: to_submit; register: opcode
    b: u32,   // enter: min_complete; register: cancel flags
    c: u32,   // enter: flags; register: nr_args
    pending_at_call: u32,
}

static mut CALLS: crate::verif_stubs::V<[Call; 6]> = crate::verif_stubs::V::new([Call { kind: 0, a: 0, b: 0, c: 0, pending_at_call: 0 }; 6]);
static mut NCALLS: crate::verif_stubs::V<usize> = crate::verif_stubs::V::new(0);
static mut FAIL_MASK: crate::verif_stubs::V<u8> = crate::verif_stubs::V::new(0); // bit i: the i-th kernel call fails
static mut CANCEL_TARGET: crate::verif_stubs::V<u64> = crate::verif_stubs::V::new(0); // user_data of the in-flight operation the cancel-all completes

fn record(c: Call) -> bool {
    unsafe {
        let i = NCALLS.v;
        if i < 6 {
            CALLS.v[i] = c;
        }
        NCALLS.v += 1;
        FAIL_MASK.v & (1 << i) != 0
    }
}

unsafe fn model_enter(_fd: i32, to_submit: u32, min_complete: u32, flags: u32, _arg: *const libc::c_void, _sz: usize) -> i32 {
    let pending = k::sq_tail().wrapping_sub(k::sq_head());
    let fail = record(Call { kind: 1, a: to_submit, b: min_complete, c: flags, pending_at_call: pending });
    if fail {
        unsafe { *libc::__errno_location() = libc::EBADF };
        return -1;
    }
    // consume what was asked for
    let n = core::cmp::min(to_submit, pending);
    k::sq_mem().head.store(k::sq_head().wrapping_add(n), Ordering::Relaxed);
    n as i32
}

unsafe fn model_register(_fd: i32, op: u32, arg: *const libc::c_void, nr: u32) -> i32 {
    let flags = if op == IORING_REGISTER_SYNC_CANCEL { unsafe { *arg.cast::<u8>().add(12).cast::<u32>() } } else { 0 };
    let fail = record(Call { kind: 2, a: op, b: flags, c: nr, pending_at_call: 0 });
    if fail {
        unsafe { *libc::__errno_location() = libc::EINVAL };
        return -1;
    }
    if op == IORING_REGISTER_SYNC_CANCEL && unsafe { CANCEL_TARGET.v } != 0 {
        // the kernel cancels the in-flight operation: its final completion is posted
        let mem = k::cq_mem();
        let t = mem.tail.load(Ordering::Relaxed);
        let c = &mut mem.cqes[(t & 1) as usize];
        c.user_data = unsafe { CANCEL_TARGET.v };
        c.res = -libc::ECANCELED;
        c.flags = 0;
        mem.tail.store(t.wrapping_add(1), Ordering::Relaxed);
    }
    0
}

fn noop_wake_blocked(_s: &crate::io_uring::Shared) {}

static mut DROPS: crate::verif_stubs::V<u32> = crate::verif_stubs::V::new(0);
struct Res(Box<[u8; 4]>);
impl Drop for Res {
    fn drop(&mut self) {
        unsafe { DROPS.v += 1 };
    }
}

//@ prop: C12
//@ tier: quick
//@ what: Ring::drop with queued clean-up requests and an abandoned operation still in flight, against a kernel that may fail ANY of the calls: (1) one submit-only io_uring_enter that passes exactly the number of unsubmitted entries, (2) one synchronous cancel of ANY|ALL requests, (3) the completions that arrived are drained -- the abandoned operation's state and resources are reclaimed exactly once by its cancellation completion -- and the head is published; a failing call is tolerated (no panic, the remaining steps still run)
//@ bound: ring SQ=2/CQ=2; 0..=2 unsubmitted entries; one abandoned (Dropped) single-shot operation; each io_uring_enter call may fail (symbolic mask); the cancel-all call succeeds
//@ encodes: <Ring as Drop>::drop; io_uring::cq::Completions::drop; io_uring::cq::Completions::poll; io_uring::Shared::{enter,register}; io_uring::cq::Completion::process; io_uring::op::drop_state
//@ stubs: io_uring::Shared::wake_blocked_futures -> no-op (no future waits for a slot here; its Vec code exhausts CBMC's memory); crate::lock -> try_lock model; <core::io::CustomOwner as Drop>::drop -> no-op; Waker -> direct calls
//@ ignore_artifact: core/src/io/error/repr_bitpacked\.rs
#[kani::proof]
#[kani::unwind(3)]
#[kani::stub(crate::io_uring::Shared::wake_blocked_futures, noop_wake_blocked)]
#[kani::stub(crate::lock, crate::verif_stubs::lock_model)]
#[kani::stub(<core::io::CustomOwner as core::ops::Drop>::drop, crate::verif_stubs::custom_owner_drop_noop)]
#[kani::stub(<std::task::Waker as std::ops::Drop>::drop, crate::io_uring::verif_kernel::waker_drop_direct)]
#[kani::stub(<std::task::Waker as std::clone::Clone>::clone, crate::io_uring::verif_kernel::waker_clone_direct)]
#[kani::stub(std::task::Waker::wake, crate::io_uring::verif_kernel::waker_wake_direct)]
fn c12_ring_drop_sequence() {
    let mut t = k::base_table();
    t.io_uring_enter2 = Some(model_enter);
    t.io_uring_register = Some(model_register);
    k::install(t);
    let unsubmitted: u32 = kani::any();
    kani::assume(unsubmitted <= 2);
    k::sq_set(0, unsubmitted);
    let mem = k::cq_mem();
    mem.head.store(0, Ordering::Relaxed);
    mem.tail.store(0, Ordering::Relaxed);
    let sq = crate::io_uring::sq::verif_c04::submissions_in_place(2, false, false);
    let queue = SubmissionQueue(sq.clone());
    // an operation abandoned while in flight
    let mut st: State<Singleshot, Res, ()> = State::new(Res(Box::new([0; 4])), ());
    ops::force_running(&mut st, 0, 0, None);
    let ud = ops::state_user_data(&st);
    let tail_before = k::sq_tail();
    unsafe { OpState::drop(&mut st, &queue) };
    let queued = k::sq_tail().wrapping_sub(tail_before); // the cancel request, if there was room
    unsafe {
        NCALLS.v = 0;
        DROPS.v = 0;
        // the cancel-all call itself succeeds (its failure path builds an io::Error whose
        // drop trips a Kani artifact in std's bit-packed repr and cuts the path)
        FAIL_MASK.v = kani::any::<u8>() & !0b10;
        CANCEL_TARGET.v = ud;
    }
    let ring = Ring { cq: cqh::build_completions(2), sq };
    drop(ring);

    let (calls, n, mask) = unsafe { (CALLS.v, NCALLS.v, FAIL_MASK.v) };
    assert!(n >= 3 && n <= 5, "flush, cancel-all, fetch (+ at most the drain's own entry)");
    // (1) flush
    assert!(calls[0].kind == 1, "first: submit what is queued");
    assert!(calls[0].a == unsubmitted + queued && calls[0].a == calls[0].pending_at_call, "passes exactly the unsubmitted entries");
    assert!(calls[0].c & IORING_ENTER_GETEVENTS == 0 && calls[0].c & IORING_ENTER_EXT_ARG != 0, "submit only");
    // (2) cancel everything still running
    assert!(calls[1].kind == 2 && calls[1].a == IORING_REGISTER_SYNC_CANCEL && calls[1].c == 1);
    assert!(calls[1].b == (IORING_ASYNC_CANCEL_ANY | IORING_ASYNC_CANCEL_ALL), "cancel ANY|ALL");
    // (3) fetch + drain
    assert!(calls[2].kind == 1 && calls[2].c & IORING_ENTER_GETEVENTS != 0 && calls[2].b == 1);
    let cancel_ok = mask & 0b10 == 0;
    if cancel_ok {
        assert!(unsafe { DROPS.v } == 1, "abandoned operation reclaimed exactly once while the ring is torn down");
        assert!(mem.head.load(Ordering::Relaxed) == mem.tail.load(Ordering::Relaxed), "everything that arrived was consumed");
    } else {
        assert!(unsafe { DROPS.v } == 0, "nothing to reclaim yet (the kernel never completed it)");
    }
    kani::cover!(mask & 0b111 == 0 && unsubmitted == 2);
    kani::cover!(mask & 0b1 != 0, "flush fails");
    kani::cover!(mask & 0b100 != 0, "fetch fails");
    kani::cover!(queued == 1);
    std::mem::forget(queue);
}

static mut FLUSH_SEEN: crate::verif_stubs::V<bool> = crate::verif_stubs::V::new(false);
static mut FLUSH_TO_SUBMIT: crate::verif_stubs::V<u32> = crate::verif_stubs::V::new(0);
static mut FETCH_SEEN: crate::verif_stubs::V<bool> = crate::verif_stubs::V::new(false);
static mut CANCEL_SEEN: crate::verif_stubs::V<bool> = crate::verif_stubs::V::new(false);
static mut CANCEL_FLAGS: crate::verif_stubs::V<u32> = crate::verif_stubs::V::new(0);
static mut FAIL_FLUSH: crate::verif_stubs::V<bool> = crate::verif_stubs::V::new(false);
static mut FAIL_FETCH: crate::verif_stubs::V<bool> = crate::verif_stubs::V::new(false);
static mut CANCEL_ERRNO: crate::verif_stubs::V<i32> = crate::verif_stubs::V::new(0);

// Phase-detecting kernel model without call counters (plain stores only: a
// read-modify-write counter in a hook makes Kani 0.68 mis-evaluate the
// `io::Result<()>` that `?` produces afterwards -- see DESIGN, encoding artifacts).
unsafe fn enter_by_phase(_fd: i32, to_submit: u32, _min: u32, flags: u32, _arg: *const libc::c_void, _sz: usize) -> i32 {
    unsafe {
        if flags & IORING_ENTER_GETEVENTS == 0 {
            FLUSH_SEEN.v = true;
            FLUSH_TO_SUBMIT.v = to_submit;
            if FAIL_FLUSH.v {
                *libc::__errno_location() = libc::EBADF;
                return -1;
            }
            let pending = k::sq_tail().wrapping_sub(k::sq_head());
            let n = core::cmp::min(to_submit, pending);
            k::sq_mem().head.store(k::sq_head().wrapping_add(n), Ordering::Relaxed);
            n as i32
        } else {
            FETCH_SEEN.v = true;
            if FAIL_FETCH.v {
                *libc::__errno_location() = libc::EBADF;
                return -1;
            }
            0
        }
    }
}

unsafe fn register_refuses(_fd: i32, op: u32, arg: *const libc::c_void, _nr: u32) -> i32 {
    unsafe {
        if op == IORING_REGISTER_SYNC_CANCEL {
            CANCEL_SEEN.v = true;
            CANCEL_FLAGS.v = *arg.cast::<u8>().add(12).cast::<u32>();
        }
        *libc::__errno_location() = CANCEL_ERRNO.v;
    }
    -1
}

//@ prop: C12
//@ tier: quick
//@ what: Ring::drop when the synchronous cancel is REFUSED by the kernel (ETIME: something could not be cancelled in time; EEXIST/EINVAL: not allowed from this task): the tear-down still fetches and drains what arrived -- an abandoned operation whose completion is already in the queue is reclaimed exactly once, the head is published -- and the flush before it passed exactly the unsubmitted entries; failing flush/fetch calls are tolerated too
//@ bound: ring SQ=2/CQ=2; 0..=2 unsubmitted entries; one abandoned (Dropped) single-shot operation whose completion (any result) is in the queue; cancel errno in {ETIME, EEXIST, EINVAL}; flush and fetch may each fail (symbolic)
//@ encodes: <Ring as Drop>::drop; io_uring::cq::Completions::drop; io_uring::cq::Completions::poll; io_uring::Shared::{enter,register}; io_uring::cq::Completion::process; io_uring::op::drop_state
//@ stubs: io_uring::Shared::wake_blocked_futures -> no-op (no future waits for a slot here); crate::lock -> try_lock model; <core::io::CustomOwner as Drop>::drop -> no-op; Waker -> direct calls
//@ ignore_artifact: core/src/io/error/repr_bitpacked\.rs
#[kani::proof]
#[kani::unwind(3)]
#[kani::stub(crate::io_uring::Shared::wake_blocked_futures, noop_wake_blocked)]
#[kani::stub(crate::lock, crate::verif_stubs::lock_model)]
#[kani::stub(<core::io::CustomOwner as core::ops::Drop>::drop, crate::verif_stubs::custom_owner_drop_noop)]
#[kani::stub(<std::task::Waker as std::ops::Drop>::drop, crate::io_uring::verif_kernel::waker_drop_direct)]
#[kani::stub(<std::task::Waker as std::clone::Clone>::clone, crate::io_uring::verif_kernel::waker_clone_direct)]
#[kani::stub(std::task::Waker::wake, crate::io_uring::verif_kernel::waker_wake_direct)]
fn c12_ring_drop_cancel_refused() {
    let mut t = k::base_table();
    t.io_uring_enter2 = Some(enter_by_phase);
    t.io_uring_register = Some(register_refuses);
    k::install(t);
    let unsubmitted: u32 = kani::any();
    kani::assume(unsubmitted <= 2);
    k::sq_set(0, unsubmitted);
    let mem = k::cq_mem();
    mem.head.store(0, Ordering::Relaxed);
    mem.tail.store(0, Ordering::Relaxed);
    let sq = crate::io_uring::sq::verif_c04::submissions_in_place(2, false, false);
    let queue = SubmissionQueue(sq.clone());
    // an operation abandoned while in flight ...
    let mut st: State<Singleshot, Res, ()> = State::new(Res(Box::new([0; 4])), ());
    ops::force_running(&mut st, 0, 0, None);
    let ud = ops::state_user_data(&st);
    let tail_before = k::sq_tail();
    unsafe { OpState::drop(&mut st, &queue) };
    let queued = k::sq_tail().wrapping_sub(tail_before);
    // ... whose completion has meanwhile arrived (not yet processed)
    let res: i32 = kani::any();
    kani::assume(res >= -4095);
    mem.cqes[0].user_data = ud;
    mem.cqes[0].res = res;
    mem.cqes[0].flags = 0;
    mem.tail.store(1, Ordering::Relaxed);
    let which: u8 = kani::any();
    kani::assume(which < 3);
    unsafe {
        DROPS.v = 0;
        FLUSH_SEEN.v = false;
        FETCH_SEEN.v = false;
        CANCEL_SEEN.v = false;
        FAIL_FLUSH.v = kani::any();
        FAIL_FETCH.v = kani::any();
        CANCEL_ERRNO.v = match which {
            0 => libc::ETIME,
            1 => libc::EEXIST,
            _ => libc::EINVAL,
        };
    }
    let ring = Ring { cq: cqh::build_completions(2), sq };
    drop(ring);

    unsafe {
        assert!(FLUSH_SEEN.v && FLUSH_TO_SUBMIT.v == unsubmitted + queued, "queued requests are flushed first");
        assert!(CANCEL_SEEN.v && CANCEL_FLAGS.v == (IORING_ASYNC_CANCEL_ANY | IORING_ASYNC_CANCEL_ALL), "cancel ANY|ALL attempted");
        assert!(FETCH_SEEN.v, "completions are fetched although the cancel was refused");
        assert!(DROPS.v == 1, "an abandoned operation whose completion arrived is reclaimed by the tear-down, exactly once");
        assert!(mem.head.load(Ordering::Relaxed) == 1, "everything that arrived was consumed");
        kani::cover!(FAIL_FLUSH.v && FAIL_FETCH.v && which == 0, "all three calls fail");
        kani::cover!(!FAIL_FLUSH.v && !FAIL_FETCH.v && which == 1 && unsubmitted == 2);
    }
    kani::cover!(queued == 1 && res == -libc::ECANCELED);
    std::mem::forget(queue);
}

static mut CLOSE_SEEN_BY_KERNEL: crate::verif_stubs::V<bool> = crate::verif_stubs::V::new(false);

unsafe fn enter_sees_close(_fd: i32, _to_submit: u32, _min: u32, _flags: u32, _arg: *const libc::c_void, _sz: usize) -> i32 {
    unsafe { CLOSE_SEEN_BY_KERNEL.v = true };
    0
}

//@ prop: C12
//@ tier: quick
//@ what: an AsyncFd dropped AFTER its Ring (the queue handle keeps the ring memory alive) must not leave its descriptor behind: the close has to reach the kernel -- a synchronous close, or a queued CLOSE that somebody submits
//@ bound: regular descriptor, any number; ring already dropped
//@ encodes: <AsyncFd as Drop>::drop after <Ring as Drop>::drop
//@ stubs: crate::lock -> try_lock model; <core::io::CustomOwner as Drop>::drop -> no-op
#[kani::proof]
#[kani::unwind(3)]
#[kani::stub(crate::lock, crate::verif_stubs::lock_model)]
#[kani::stub(<core::io::CustomOwner as core::ops::Drop>::drop, crate::verif_stubs::custom_owner_drop_noop)]
fn c12_fd_dropped_after_ring() {
    let mut t = k::base_table();
    t.io_uring_enter2 = Some(enter_sees_close);
    k::install(t);
    k::sq_set(0, 0);
    unsafe {
        k::CLOSES.v = 0;
        CLOSE_SEEN_BY_KERNEL.v = false;
    }
    let sq = crate::io_uring::sq::verif_c04::submissions_in_place(2, false, false);
    let queue = SubmissionQueue(sq.clone());
    // The Ring is gone: nobody will ever call io_uring_enter for this queue
    // again (Ring::drop itself is c12_ring_drop_sequence); the handle `queue`
    // keeps the shared ring memory alive.
    drop(sq);
    let n: i32 = kani::any();
    kani::assume(n >= 0 && n < i32::MAX);
    let fd = unsafe { AsyncFd::from_raw(n, Kind::File, queue.clone()) };
    drop(fd);
    let closed_sync = unsafe { k::CLOSES.v == 1 && k::LAST_CLOSED.v == n };
    let submitted = unsafe { CLOSE_SEEN_BY_KERNEL.v };
    assert!(closed_sync || submitted, "descriptor of an AsyncFd dropped after its Ring is never closed");
    kani::cover!(true);
    std::mem::forget(queue);
}

// ===========================================================================
// Glue scenario (thorough): one read through the public API, end to end.
// ===========================================================================

fn enter_noop(_s: &crate::io_uring::Shared, _m: u32, _f: u32, _t: Option<std::time::Duration>) -> std::io::Result<u32> {
    Ok(0)
}

//@ prop: C02 C01 C13
//@ tier: thorough
//@ what: end-to-end glue for one read: Future::poll submits (request found in the ring memory), the model kernel consumes it, writes n bytes through the address in the request and posts a completion carrying the request's user_data; Ring::poll delivers it (waker woken once); the next Future::poll resolves with the caller's buffer holding exactly those n bytes -- user_data survives the round trip through SQE and CQE memory, the buffer the kernel wrote is the one handed back
//@ bound: one read into a Vec of capacity 4; n in 0..=4 symbolic, bytes symbolic; ring SQ=2/CQ=2, counters 0
//@ encodes: io::AsyncFd::read; <io::Read as Future>::poll; io_uring::op::poll_inner; io_uring::sq::Submissions::add; Ring::poll; io_uring::cq::Completions::poll; io_uring::cq::Completion::process; <io_uring::io::ReadOp as FdOp>::{fill_submission,map_ok}
//@ stubs: io_uring::Shared::enter -> no-op model (never needed: a completion is available); crate::lock -> try_lock model; <core::io::CustomOwner as Drop>::drop -> no-op; Waker -> direct calls
//@ timeout: 2400
//@ mem_gb: 45
#[kani::proof]
#[kani::unwind(3)]
#[kani::stub(crate::io_uring::Shared::enter, enter_noop)]
#[kani::stub(crate::lock, crate::verif_stubs::lock_model)]
#[kani::stub(<core::io::CustomOwner as core::ops::Drop>::drop, crate::verif_stubs::custom_owner_drop_noop)]
#[kani::stub(<std::task::Waker as std::ops::Drop>::drop, crate::io_uring::verif_kernel::waker_drop_direct)]
#[kani::stub(<std::task::Waker as std::clone::Clone>::clone, crate::io_uring::verif_kernel::waker_clone_direct)]
#[kani::stub(std::task::Waker::wake, crate::io_uring::verif_kernel::waker_wake_direct)]
#[kani::stub(std::task::Waker::wake_by_ref, crate::io_uring::verif_kernel::waker_wake_by_ref_direct)]
fn scn_read_roundtrip() {
    use std::future::Future;
    use std::pin::Pin;
    use std::task::{Context, Poll};
    k::install(k::base_table());
    k::sq_set(0, 0);
    let mem = k::cq_mem();
    mem.head.store(0, Ordering::Relaxed);
    mem.tail.store(0, Ordering::Relaxed);
    let sq = crate::io_uring::sq::verif_c04::submissions_in_place(2, false, false);
    let queue = SubmissionQueue(sq.clone());
    let mut ring = ManuallyDrop::new(Ring { cq: cqh::build_completions(2), sq });
    let fd = ManuallyDrop::new(unsafe { AsyncFd::from_raw(5, Kind::File, queue.clone()) });
    let buf: Vec<u8> = Vec::with_capacity(4);
    let base = buf.as_ptr();
    let mut fut = fd.read(buf);
    let w = k::waker(0);
    let mut ctx = Context::from_waker(&w);
    // 1. submit
    assert!(Pin::new(&mut fut).poll(&mut ctx).is_pending());
    assert!(k::sq_tail() == 1);
    let req = k::sqe_view(k::sqe(0));
    assert!(req.opcode == 22 && req.fd == 5 && req.addr == base.addr() as u64 && req.len == 4 && req.off == u64::MAX);
    // 2. the kernel consumes the request, performs the read and posts the completion
    k::sq_mem().head.store(1, Ordering::Relaxed);
    let n: u32 = kani::any();
    kani::assume(n <= 4);
    let data: [u8; 4] = kani::any();
    // same address (asserted above); written through the pointer with known
    // provenance: an integer-derived pointer makes CBMC case-split over all objects
    let dst = base.cast_mut();
    if n > 0 { unsafe { dst.write(data[0]) }; }
    if n > 1 { unsafe { dst.add(1).write(data[1]) }; }
    if n > 2 { unsafe { dst.add(2).write(data[2]) }; }
    if n > 3 { unsafe { dst.add(3).write(data[3]) }; }
    mem.cqes[0].user_data = req.user_data;
    mem.cqes[0].res = n as i32;
    mem.cqes[0].flags = 0;
    mem.tail.store(1, Ordering::Relaxed);
    // 3. Ring::poll delivers it
    assert!(ring.poll(Some(std::time::Duration::ZERO)).is_ok());
    assert!(k::wakes(0) == 1, "woken exactly once by the poll that consumed the completion");
    assert!(mem.head.load(Ordering::Relaxed) == 1);
    // 4. the future resolves with exactly what the kernel wrote
    match Pin::new(&mut fut).poll(&mut ctx) {
        Poll::Ready(Ok(b)) => {
            assert!(b.as_ptr() == base && b.len() == n as usize, "the caller's buffer, n bytes initialised");
            assert!(n < 1 || b[0] == data[0]);
            assert!(n < 4 || b[3] == data[3]);
            std::mem::forget(b);
        }
        _ => assert!(false, "completed read must resolve with its buffer"),
    }
    kani::cover!(n == 4);
    kani::cover!(n == 0);
    std::mem::forget(fut);
    std::mem::forget(queue);
}
