//@@ attach: src/process.rs
//! Accessors for C13 (private fields of `process` futures).
#![allow(dead_code, unused_imports, clippy::all, clippy::pedantic)]

pub(crate) fn wait_id_res_addr(f: &super::WaitId) -> usize {
    crate::io_uring::op::verif_opsup::resources_addr(&f.state)
}

/// C13: a `Signals` around an arbitrary descriptor (private fields), never dropped by the caller.
pub(crate) fn signals_around(fd: AsyncFd) -> ManuallyDrop<super::Signals> {
    ManuallyDrop::new(super::Signals { fd, signals: super::SignalSet(unsafe { std::mem::zeroed() }) })
}

pub(crate) fn receive_signal_res_addr(f: &super::ReceiveSignal<'_>) -> usize {
    crate::io_uring::op::verif_opsup::resources_addr(&f.state)
}

/// C13: a SignalInfo from the first five 32-bit words of its kernel bytes
/// (struct signalfd_siginfo, 128 bytes; written by byte offset, the rest zero).
pub(crate) fn signal_info_from_words(w: [u32; 5]) -> super::SignalInfo {
    const _S: () = assert!(std::mem::size_of::<libc::signalfd_siginfo>() == 128);
    let mut raw: libc::signalfd_siginfo = unsafe { std::mem::zeroed() };
    let p = std::ptr::addr_of_mut!(raw).cast::<u32>();
    unsafe {
        p.add(0).write(w[0]);
        p.add(1).write(w[1]);
        p.add(2).write(w[2]);
        p.add(3).write(w[3]);
        p.add(4).write(w[4]);
    }
    super::SignalInfo(raw)
}

pub(crate) fn signal_number(s: super::Signal) -> i32 {
    s.0
}

// ===========================================================================
// C06: the hand-written drop paths of the owned signal stream.
// ===========================================================================

use std::mem::ManuallyDrop;
use std::pin::Pin;
use std::task::{Context, Poll};

use crate::fd::{AsyncFd, Kind};
use crate::io_uring::op::verif_opsup as ops;
use crate::io_uring::op::{Singleshot, State};
use crate::op::OpState;
use crate::io_uring::verif_kernel as k;
use crate::SubmissionQueue;

type SigState = State<Singleshot, std::mem::MaybeUninit<super::SignalInfo>, ()>;

fn sigprocmask_noop(_how: libc::c_int, _set: &libc::sigset_t) -> std::io::Result<()> {
    Ok(())
}

fn signals_rig(free: u32) -> (SubmissionQueue, super::ReceiveSignals) {
    k::install(k::base_table());
    k::sq_set(0, 2 - free);
    let sq = SubmissionQueue(crate::io_uring::sq::verif_c04::submissions_in_place(2, false, false));
    let fd = unsafe { AsyncFd::from_raw(7, Kind::File, sq.clone()) };
    let signals = super::Signals { fd, signals: super::SignalSet(unsafe { std::mem::zeroed() }) };
    let state: SigState = State::new(std::mem::MaybeUninit::uninit(), ());
    (sq, super::ReceiveSignals { signals, state })
}

//@ prop: C06
//@ tier: quick
//@ what: the owned signal stream (ReceiveSignals) has hand-written drop paths: dropping it, or taking the Signals back with into_inner(), while its read is in flight submits exactly one ASYNC_CANCEL for exactly that read (nothing when the queue is full) and leaves the state to the final completion (which reclaims it once: CBMC's double-free/use-after-free checks); not started / finished -> no cancel; into_inner hands back the same descriptor WITHOUT closing it and without a second drop of the state
//@ bound: status in {NotStarted, Running, Done}; queue with room or full; drop vs into_inner (symbolic)
//@ encodes: <process::ReceiveSignals as Drop>::drop; process::ReceiveSignals::into_inner; <io_uring::op::State as OpState>::drop; io_uring::cq::Completion::process
//@ stubs: crate::lock -> try_lock model; <core::io::CustomOwner as Drop>::drop -> no-op; Waker -> direct calls; io_uring::process::sigprocmask (pthread_sigmask FFI) -> Ok
#[kani::proof]
#[kani::unwind(3)]
#[kani::stub(crate::lock, crate::verif_stubs::lock_model)]
#[kani::stub(<core::io::CustomOwner as core::ops::Drop>::drop, crate::verif_stubs::custom_owner_drop_noop)]
#[kani::stub(<std::task::Waker as std::ops::Drop>::drop, crate::io_uring::verif_kernel::waker_drop_direct)]
#[kani::stub(<std::task::Waker as std::clone::Clone>::clone, crate::io_uring::verif_kernel::waker_clone_direct)]
#[kani::stub(std::task::Waker::wake, crate::io_uring::verif_kernel::waker_wake_direct)]
#[kani::stub(crate::io_uring::process::sigprocmask, sigprocmask_noop)]
fn c06_signal_stream_drop_paths() {
    let full: bool = kani::any();
    let (sq, mut rs) = signals_rig(if full { 0 } else { 2 });
    let which: u8 = kani::any();
    kani::assume(which < 3);
    match which {
        0 => {}
        1 => ops::force_running(&mut rs.state, 0, 0, Some(k::waker(0))),
        _ => ops::force_done(&mut rs.state, 128, 0),
    }
    let ud = ops::state_user_data(&rs.state);
    let tail0 = k::sq_tail();
    unsafe { k::CLOSES.v = 0 };
    let take_back: bool = kani::any();
    if take_back {
        let signals = rs.into_inner();
        assert!(signals.fd.fd() == 7 && matches!(signals.fd.kind(), Kind::File), "the same descriptor is handed back");
        // (dropping Signals itself unblocks the signal mask and closes the fd: C07)
        std::mem::forget(signals);
    } else {
        // Drop for ReceiveSignals, then its fields: Signals (unblocks the
        // signal mask: stubbed) and the descriptor (closed through the ring,
        // or synchronously when the queue is full: C07)
        drop(rs);
    }
    let mut queued = k::sq_tail().wrapping_sub(tail0);
    if !take_back {
        // the descriptor's own close: the LAST request queued, or close(2)
        if unsafe { k::CLOSES.v } == 0 {
            assert!(queued >= 1);
            let e = k::sqe_view(k::sqe(((k::sq_tail().wrapping_sub(1)) & 1) as usize));
            assert!(e.opcode == 19 /* IORING_OP_CLOSE */ && e.fd == 7);
            queued -= 1;
        } else {
            assert!(unsafe { k::CLOSES.v == 1 && k::LAST_CLOSED.v == 7 });
        }
    } else {
        assert!(unsafe { k::CLOSES.v } == 0, "into_inner does not close the signal descriptor");
    }
    if which == 1 && !full {
        assert!(queued == 1, "exactly one request: the cancel");
        let e = k::sqe_view(k::sqe(0));
        let mut want = k::ZERO_SQE;
        want.opcode = 14; // IORING_OP_ASYNC_CANCEL
        want.addr = ud;
        want.user_data = 2;
        want.flags = 1 << 6; // IOSQE_CQE_SKIP_SUCCESS
        assert!(e == want, "cancels exactly the in-flight read");
    } else {
        assert!(queued == 0, "nothing in flight (or no room): no request");
    }
    if which == 1 {
        // the final completion reclaims the abandoned state exactly once
        let c = crate::io_uring::cq::verif_c05::completion(ud, -libc::ECANCELED, 0);
        unsafe { crate::io_uring::cq::verif_c05::process(&c) };
    }
    kani::cover!(which == 1 && take_back && !full);
    kani::cover!(which == 1 && !take_back && full);
    kani::cover!(which == 2 && take_back);
    std::mem::forget(sq);
}

//@ prop: C07
//@ tier: quick
//@ what: Signals::to_direct_descriptor's result mapping: the new direct descriptor is owned by the returned Signals (kind Direct, that index), and the ORIGINAL regular signal descriptor it replaces is closed exactly once (one CLOSE for exactly that fd, or close(2) when the queue is full) -- it is neither leaked nor closed twice
//@ bound: any regular fd number for the original, any index for the direct one; queue with room or full
//@ encodes: <process::Signals as io_uring::fd::DirectFdMapper>::map; <AsyncFd as Drop>::drop
//@ stubs: crate::lock -> try_lock model; <core::io::CustomOwner as Drop>::drop -> no-op
#[kani::proof]
#[kani::unwind(3)]
#[kani::stub(crate::lock, crate::verif_stubs::lock_model)]
#[kani::stub(<core::io::CustomOwner as core::ops::Drop>::drop, crate::verif_stubs::custom_owner_drop_noop)]
fn c07_signals_to_direct_mapping() {
    use crate::io_uring::fd::DirectFdMapper;
    let full: bool = kani::any();
    k::install(k::base_table());
    k::sq_set(0, if full { 2 } else { 0 });
    let sq = SubmissionQueue(crate::io_uring::sq::verif_c04::submissions_in_place(2, false, false));
    let old: i32 = kani::any();
    kani::assume(old >= 3 && old < i32::MAX);
    let idx: i32 = kani::any();
    kani::assume(idx >= 0 && idx < i32::MAX);
    let signals = super::Signals { fd: unsafe { AsyncFd::from_raw(old, Kind::File, sq.clone()) }, signals: super::SignalSet(unsafe { std::mem::zeroed() }) };
    let dfd = unsafe { AsyncFd::from_raw(idx, Kind::Direct, sq.clone()) };
    unsafe { k::CLOSES.v = 0 };
    let tail0 = k::sq_tail();
    let mapped = signals.map(dfd);
    assert!(mapped.fd.fd() == idx && matches!(mapped.fd.kind(), Kind::Direct), "the Signals now owns the direct descriptor");
    let queued = k::sq_tail().wrapping_sub(tail0);
    if full {
        assert!(queued == 0 && unsafe { k::CLOSES.v == 1 && k::LAST_CLOSED.v == old }, "original descriptor closed synchronously, once");
    } else {
        assert!(queued == 1 && unsafe { k::CLOSES.v } == 0, "exactly one close request");
        let e = k::sqe_view(k::sqe(0));
        assert!(e.opcode == 19 /* IORING_OP_CLOSE */ && e.fd == old && e.file_index == 0, "for exactly the original regular descriptor");
    }
    kani::cover!(full);
    kani::cover!(!full && old == 7);
    std::mem::forget(mapped);
    std::mem::forget(sq);
}
