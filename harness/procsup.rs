//@@ attach: src/process.rs
//! Accessors for C13 (private fields of `process` futures).
#![allow(dead_code, unused_imports, clippy::all, clippy::pedantic)]

pub(crate) fn wait_id_res_addr(f: &super::WaitId) -> usize {
    crate::io_uring::op::verif_opsup::resources_addr(&f.state)
}
