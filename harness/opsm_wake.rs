//@@ attach: src/io_uring/op.rs
//! C03, second clause: futures waiting for a submission slot are woken when
//! room is available -- `Shared::wake_blocked_futures` and `Shared::enter`.
//!
//! The `Shared` lives on the harness stack (both functions only need
//! `&Shared`): with the same object inside an `Arc` every formulation, down to
//! one concrete waiter, exhausted CBMC's memory; on the stack the real
//! function verifies in seconds (measured; see DESIGN 2.4).
#![allow(dead_code, unused_imports, static_mut_refs, clippy::all, clippy::pedantic)]

use crate::io_uring::verif_hooks;
use crate::io_uring::verif_kernel as k;
use crate::io_uring::{Shared, libc};

fn push_blocked(shared: &Shared, n: usize) {
    let mut v: Vec<std::task::Waker> = Vec::with_capacity(4);
    if n >= 1 { v.push(k::waker(0)); }
    if n >= 2 { v.push(k::waker(1)); }
    if n >= 3 { v.push(k::waker(2)); }
    unsafe { std::ptr::write(shared.blocked_futures.data_ptr(), v) };
}

fn blocked(shared: &Shared) -> &Vec<std::task::Waker> {
    unsafe { &*shared.blocked_futures.data_ptr() }
}

macro_rules! wk {
    ($($item:item)*) => { $(
        #[kani::proof]
        #[kani::unwind(6)]
        #[kani::stub(crate::lock, crate::verif_stubs::lock_model)]
        #[kani::stub(<core::io::CustomOwner as core::ops::Drop>::drop, crate::verif_stubs::custom_owner_drop_noop)]
        #[kani::stub(<std::task::Waker as std::ops::Drop>::drop, crate::io_uring::verif_kernel::waker_drop_direct)]
        #[kani::stub(<std::task::Waker as std::clone::Clone>::clone, crate::io_uring::verif_kernel::waker_clone_direct)]
        #[kani::stub(std::task::Waker::wake, crate::io_uring::verif_kernel::waker_wake_direct)]
        #[kani::stub(std::task::Waker::wake_by_ref, crate::io_uring::verif_kernel::waker_wake_by_ref_direct)]
        $item
    )* };
}

fn check_conservation(shared: &Shared, n: usize, late: usize, available: usize) {
    let list = blocked(shared);
    let woken = (k::wakes(0) + k::wakes(1) + k::wakes(2) + k::wakes(3)) as usize;
    assert!(k::wakes(0) <= 1 && k::wakes(1) <= 1 && k::wakes(2) <= 1 && k::wakes(3) <= 1, "nobody woken twice");
    assert!(woken + list.len() == n + late, "no waiter lost: each one was woken or is still registered");
    assert!(woken >= core::cmp::min(n, available), "as many waiters as there are free slots are woken");
    if available > 0 && n >= 1 {
        assert!(k::wakes(0) == 1, "the longest-waiting future is woken first");
    }
    // a waiter that is neither woken nor registered would have been dropped: the clone counters show it
    let alive = |id: usize| k::waker_clones(id) >= 1;
    if n >= 1 { assert!(k::wakes(0) == 1 || alive(0), "waiter 0 lost"); }
    if n >= 2 { assert!(k::wakes(1) == 1 || alive(1), "waiter 1 lost"); }
    if n >= 3 { assert!(k::wakes(2) == 1 || alive(2), "waiter 2 lost"); }
}

wk! {

//@ prop: C03
//@ tier: quick
//@ what: wake_blocked_futures with n futures waiting for a submission slot and `available` free slots (every combination, incl. MORE waiters than slots): at least min(n, available) of them are woken, the longest-waiting first, each at most once, the others stay registered and alive -- no waiter is lost (woken + still registered == n)
//@ bound: ring of 2 with 0..=2 unsubmitted entries (symbolic); n in 0..=3 waiters (symbolic)
//@ encodes: io_uring::Shared::wake_blocked_futures; io_uring::Shared::unsubmitted_submissions; try_lock
//@ stubs: crate::lock -> try_lock model; Waker::{drop,clone,wake,wake_by_ref} -> direct calls to the counting waker; <core::io::CustomOwner as Drop>::drop -> no-op
fn sm_wake_blocked() {
    k::install(k::base_table());
    let unsubmitted: u32 = kani::any();
    kani::assume(unsubmitted <= 2);
    k::sq_set(0, unsubmitted);
    let shared = k::build_shared(2, false, false);
    let n: usize = kani::any();
    kani::assume(n <= 3);
    push_blocked(&shared, n);
    shared.wake_blocked_futures();
    check_conservation(&shared, n, 0, (2 - unsubmitted) as usize);
    kani::cover!(n == 3 && unsubmitted == 0, "more waiters than slots");
    kani::cover!(n == 2 && unsubmitted == 2, "no room");
    kani::cover!(n == 1 && unsubmitted == 0);
    std::mem::forget(shared);
}

}

fn wake_case(n: usize, unsubmitted: u32) {
    k::install(k::base_table());
    k::sq_set(0, unsubmitted);
    let shared = k::build_shared(2, false, false);
    push_blocked(&shared, n);
    shared.wake_blocked_futures();
    check_conservation(&shared, n, 0, (2 - unsubmitted) as usize);
    std::mem::forget(shared);
}

wk! {

//@ prop: C03
//@ tier: quick
//@ what: concrete instance of sm_wake_blocked (3 waiters, 2 free slots): exists so that a counterexample has a cheap native replay (the symbolic harness's trace generation exceeds the memory cap)
//@ bound: n = 3, 0 unsubmitted of 2
//@ encodes: io_uring::Shared::wake_blocked_futures
//@ stubs: crate::lock -> try_lock model; Waker -> direct calls; <core::io::CustomOwner as Drop>::drop -> no-op
//@ concrete: yes
fn sm_wake_blocked_3_waiters_2_free() {
    wake_case(3, 0);
    kani::cover!(true);
}

//@ prop: C03
//@ tier: quick
//@ what: concrete instance of sm_wake_blocked (2 waiters, 1 free slot), for a cheap native replay
//@ bound: n = 2, 1 unsubmitted of 2
//@ encodes: io_uring::Shared::wake_blocked_futures
//@ stubs: crate::lock -> try_lock model; Waker -> direct calls; <core::io::CustomOwner as Drop>::drop -> no-op
//@ concrete: yes
fn sm_wake_blocked_2_waiters_1_free() {
    wake_case(2, 1);
    kani::cover!(true);
}

}

static mut LATE: crate::verif_stubs::V<u32> = crate::verif_stubs::V::new(0);
static mut LATE_SHARED: crate::verif_stubs::V<*const Shared> = crate::verif_stubs::V::new(std::ptr::null());

/// Yield hook: when wake_blocked_futures re-takes the list lock, another
/// thread has meanwhile registered one more waiter (id 3).
fn late_arrival(kind: u32) {
    unsafe {
        if kind == verif_hooks::YIELD_LOCK && LATE.v > 0 {
            LATE.v -= 1;
            let list: &mut Vec<std::task::Waker> = &mut *(*LATE_SHARED.v).blocked_futures.data_ptr();
            list.push(k::waker(3));
        }
    }
}

wk! {

//@ prop: C03
//@ tier: quick
//@ what: a waiter registering from another thread while wake_blocked_futures has the list unlocked (between the wake-ups and re-taking the lock): nobody is lost -- the late one is woken or still registered, and so are the earlier ones
//@ bound: n in 1..=2 waiters, 1..=2 free slots (symbolic), one late registration at the lock yield point
//@ encodes: io_uring::Shared::wake_blocked_futures
//@ stubs: crate::lock -> yield + try_lock model; Waker -> direct calls; <core::io::CustomOwner as Drop>::drop -> no-op
//@ assumes: thread interleaving at lock granularity (DESIGN 2.3)
fn sm_wake_blocked_late() {
    let mut t = k::base_table();
    t.yield_point = Some(late_arrival);
    k::install(t);
    let unsubmitted: u32 = kani::any();
    kani::assume(unsubmitted <= 1);
    k::sq_set(0, unsubmitted);
    let shared = k::build_shared(2, false, false);
    let n: usize = kani::any();
    kani::assume(n >= 1 && n <= 2);
    push_blocked(&shared, n);
    unsafe {
        LATE.v = 1;
        LATE_SHARED.v = &shared;
    }
    shared.wake_blocked_futures();
    let came = 1 - unsafe { LATE.v } as usize;
    unsafe { LATE.v = 0 };
    check_conservation(&shared, n, came, (2 - unsubmitted) as usize);
    assert!(came == 0 || k::wakes(3) == 1 || k::waker_clones(3) >= 1, "late waiter lost");
    kani::cover!(came == 1 && n == 2);
    std::mem::forget(shared);
}

}

static mut ENTER_RC: crate::verif_stubs::V<i32> = crate::verif_stubs::V::new(0);
static mut ENTER_ERRNO: crate::verif_stubs::V<i32> = crate::verif_stubs::V::new(0);
static mut ENTER_CONSUMES: crate::verif_stubs::V<u32> = crate::verif_stubs::V::new(0);
static mut ENTER_TO_SUBMIT: crate::verif_stubs::V<u32> = crate::verif_stubs::V::new(0);

/// io_uring_enter model: the kernel consumes ENTER_CONSUMES submissions, then
/// returns that count, or fails with ENTER_ERRNO.
unsafe fn enter_model(_fd: libc::c_int, to_submit: libc::c_uint, _min: libc::c_uint, _flags: libc::c_uint, _arg: *const libc::c_void, _size: usize) -> libc::c_int {
    unsafe {
        ENTER_TO_SUBMIT.v = to_submit;
        let mem = k::sq_mem();
        let h = mem.head.load(std::sync::atomic::Ordering::Relaxed);
        mem.head.store(h.wrapping_add(ENTER_CONSUMES.v), std::sync::atomic::Ordering::Relaxed);
        if ENTER_ERRNO.v != 0 {
            *libc::__errno_location() = ENTER_ERRNO.v;
            return -1;
        }
        ENTER_RC.v
    }
}

fn enter_case(unsub0: u32, consumes: u32, outcome: u8) {
    k::sq_set(0, unsub0);
    let shared = k::build_shared(2, false, false);
    push_blocked(&shared, 1);
    unsafe {
        ENTER_CONSUMES.v = consumes;
        ENTER_RC.v = consumes as i32;
        ENTER_ERRNO.v = match outcome {
            0 => 0,
            1 => libc::ETIME,
            2 => libc::EINTR,
            _ => libc::EBADF,
        };
    }
    let mut table = k::base_table();
    table.io_uring_enter2 = Some(enter_model);
    k::install(table);
    let r = shared.enter(1, libc::IORING_ENTER_GETEVENTS, Some(std::time::Duration::from_millis(1)));
    assert!(unsafe { ENTER_TO_SUBMIT.v } == unsub0, "the kernel is told about every unsubmitted entry");
    assert!(r.is_ok() == (outcome < 3), "timeout/interrupt are not errors");
    let room = unsub0 - consumes < 2;
    if outcome == 0 && room {
        // also when THIS call consumed nothing (consumes == 0): the room may have
        // been made earlier, by the kernel thread or by another thread's entry
        assert!(k::wakes(0) == 1, "successful kernel entry with room available: the waiting future is woken");
        assert!(blocked(&shared).is_empty());
    }
    if !room {
        assert!(k::wakes(0) == 0 && blocked(&shared).len() == 1, "still full: keeps waiting");
    }
    std::mem::forget(r);
    std::mem::forget(shared);
}

wk! {

//@ prop: C03 C04
//@ tier: quick
//@ what: Shared::enter passes exactly the number of unsubmitted entries to the kernel and, when the kernel accepted them, offers whatever room there is afterwards to the futures waiting for a slot -- also when this very call consumed nothing but room had been made before (kernel thread, another thread's entry) -- the waiting future is woken once; ETIME/EINTR are not errors, other errnos are returned
//@ bound: ring of 2 with 0..=2 unsubmitted entries before the call (symbolic), one waiter; kernel consumes 0..=unsubmitted entries; outcome in {Ok(consumed), ETIME, EINTR, EBADF} with the kernel contract "an error is only returned when nothing was consumed"
//@ encodes: io_uring::Shared::enter; io_uring::Shared::wake_blocked_futures; io_uring::Shared::unsubmitted_submissions
//@ stubs: crate::lock -> try_lock model; Waker -> direct calls; <core::io::CustomOwner as Drop>::drop -> no-op
//@ assumes: io_uring_enter returns the number of consumed submissions when it consumed any (errors only when none were consumed)
fn sm_enter_offers_room() {
    let unsub0: u32 = kani::any();
    kani::assume(unsub0 <= 2);
    let consumes: u32 = kani::any();
    kani::assume(consumes <= unsub0);
    let outcome: u8 = kani::any();
    kani::assume(outcome < 4);
    kani::assume(outcome == 0 || consumes == 0);
    enter_case(unsub0, consumes, outcome);
    kani::cover!(outcome == 0 && consumes == 2);
    kani::cover!(outcome == 0 && consumes == 0 && unsub0 == 1, "nothing consumed by this call but room exists");
    kani::cover!(outcome == 1);
    kani::cover!(outcome == 3);
}

//@ prop: C03
//@ tier: quick
//@ what: concrete instance of sm_enter_offers_room (one unsubmitted entry of two, the kernel entry succeeds without consuming anything, one waiter): exists so that a counterexample has a cheap native replay (the symbolic harness's trace generation exceeds the memory cap)
//@ bound: unsubmitted 1 of 2, consumes 0, success
//@ encodes: io_uring::Shared::enter; io_uring::Shared::wake_blocked_futures
//@ stubs: crate::lock -> try_lock model; Waker -> direct calls; <core::io::CustomOwner as Drop>::drop -> no-op
//@ concrete: yes
fn sm_enter_offers_existing_room() {
    enter_case(1, 0, 0);
    kani::cover!(true);
}

}
