//@@ attach: src/fs.rs
//! Accessors for C13 (private fields of `fs` futures).
#![allow(dead_code, unused_imports, clippy::all, clippy::pedantic)]

pub(crate) fn stat_res_addr(f: &super::Stat<'_>) -> usize {
    crate::io_uring::op::verif_opsup::resources_addr(&f.state)
}

// ===========================================================================
// C13: OpenOptions -> open(2) flags and mode.
// ===========================================================================

use crate::io_uring::op::verif_opsup as ops;
use crate::io_uring::verif_kernel as k;

/// Reference semantics of the builder (std::fs::OpenOptions / open(2)).
#[derive(Copy, Clone)]
struct OpenModel {
    access: i32,
    bits: i32,
    mode: u32,
    direct_kind: bool,
}

fn apply(o: super::OpenOptions, m: &mut OpenModel, which: u8, arg: u32) -> super::OpenOptions {
    match which {
        0 => {
            if m.access == libc::O_WRONLY {
                m.access = libc::O_RDWR;
            }
            o.read()
        }
        1 => {
            if m.access == libc::O_RDONLY {
                m.access = libc::O_RDWR;
            }
            o.write()
        }
        2 => {
            m.access = libc::O_WRONLY;
            o.write_only()
        }
        3 => {
            m.bits |= libc::O_APPEND;
            o.append()
        }
        4 => {
            m.bits |= libc::O_TRUNC;
            o.truncate()
        }
        5 => {
            m.bits |= libc::O_CREAT;
            o.create()
        }
        6 => {
            m.bits |= libc::O_CREAT | libc::O_EXCL;
            o.create_new()
        }
        7 => {
            m.bits |= libc::O_DSYNC;
            o.data_sync()
        }
        8 => {
            m.bits |= libc::O_SYNC;
            o.sync()
        }
        9 => {
            m.bits |= libc::O_DIRECT;
            o.direct()
        }
        10 => {
            m.mode = arg;
            o.mode(arg)
        }
        _ => {
            m.direct_kind = arg & 1 != 0;
            o.kind(if m.direct_kind { crate::fd::Kind::Direct } else { crate::fd::Kind::File })
        }
    }
}

//@ prop: C13
//@ tier: quick
//@ what: OpenOptions: after ANY sequence of three builder calls (read, write, write_only, append, truncate, create, create_new, data_sync, sync, direct, mode(m), kind(k)) followed by open or open_temp_file, the OPENAT arguments are exactly what open(2) would be given: access mode per the read/write rules, every requested flag bit and no other, O_TMPFILE for temp files, O_CLOEXEC iff a regular descriptor is requested, and -- whenever the kernel looks at it (O_CREAT or O_TMPFILE) -- the mode the caller set (default 0o666)
//@ bound: three builder calls (symbolic choice and arguments, any u32 mode) + open / open_temp_file
//@ encodes: fs::OpenOptions::{new,read,write,write_only,append,truncate,create,create_new,data_sync,sync,direct,mode,kind,open,open_temp_file}
//@ stubs: crate::lock -> try_lock model; <core::io::CustomOwner as Drop>::drop -> no-op
#[kani::proof]
#[kani::unwind(3)]
#[kani::stub(crate::lock, crate::verif_stubs::lock_model)]
#[kani::stub(<core::io::CustomOwner as core::ops::Drop>::drop, crate::verif_stubs::custom_owner_drop_noop)]
fn c13_open_options() {
    k::install(k::base_table());
    k::sq_set(0, 0);
    let sq = crate::SubmissionQueue(crate::io_uring::sq::verif_c04::submissions_in_place(2, false, false));
    let mut m = OpenModel { access: libc::O_RDONLY, bits: 0, mode: 0o666, direct_kind: false };
    let mut o = super::OpenOptions::new();
    let (w1, a1): (u8, u32) = (kani::any(), kani::any());
    let (w2, a2): (u8, u32) = (kani::any(), kani::any());
    let (w3, a3): (u8, u32) = (kani::any(), kani::any());
    kani::assume(w1 < 12 && w2 < 12 && w3 < 12);
    o = apply(o, &mut m, w1, a1);
    o = apply(o, &mut m, w2, a2);
    o = apply(o, &mut m, w3, a3);
    let temp: bool = kani::any();
    let mut f = if temp { o.open_temp_file(sq.clone(), std::path::PathBuf::from("d")) } else { o.open(sq.clone(), std::path::PathBuf::from("p")) };
    let (res, args) = ops::resources_args(&mut f.state);
    let (flags, mode) = *args;
    let mut want = m.access | m.bits;
    if temp {
        want |= libc::O_TMPFILE;
    }
    if !m.direct_kind {
        want |= libc::O_CLOEXEC;
    }
    assert!(flags == want, "open flags are exactly the requested ones");
    assert!(matches!(res.1, crate::fd::Kind::Direct) == m.direct_kind, "requested descriptor kind");
    if want & libc::O_CREAT != 0 || want & libc::O_TMPFILE == libc::O_TMPFILE {
        assert!(mode as u32 == m.mode, "creation mode reaches the kernel whenever it is used (O_CREAT or O_TMPFILE)");
    }
    kani::cover!(temp && w1 == 10 && a1 == 0o600);
    kani::cover!(!temp && m.access == libc::O_RDWR && m.bits & libc::O_CREAT != 0);
    kani::cover!(m.direct_kind);
    std::mem::forget(f);
    std::mem::forget(sq);
}

//@ prop: C13
//@ tier: quick
//@ what: the public path functions build the operation their name says: open_file = read-only open of that path (O_RDONLY|O_CLOEXEC, regular descriptor); create_dir / remove_file / remove_dir carry that path, remove_file asks for a file removal and remove_dir for AT_REMOVEDIR; rename keeps (from, to) in that order (the submission encoding of these arguments is c13_fs_path_ops)
//@ bound: one- and two-byte path names (symbolic bytes, no NUL)
//@ encodes: fs::{open_file,create_dir,rename,remove_file,remove_dir}; fs::path_to_cstring
//@ stubs: crate::lock -> try_lock model; <core::io::CustomOwner as Drop>::drop -> no-op
#[kani::proof]
#[kani::unwind(5)]
#[kani::stub(crate::lock, crate::verif_stubs::lock_model)]
#[kani::stub(<core::io::CustomOwner as core::ops::Drop>::drop, crate::verif_stubs::custom_owner_drop_noop)]
fn c13_fs_public_functions() {
    use std::os::unix::ffi::OsStringExt;
    k::install(k::base_table());
    k::sq_set(0, 0);
    let sq = crate::SubmissionQueue(crate::io_uring::sq::verif_c04::submissions_in_place(2, false, false));
    let a: u8 = kani::any();
    let b: u8 = kani::any();
    kani::assume(a != 0 && b != 0 && a != b);
    let pa = || std::path::PathBuf::from(std::ffi::OsString::from_vec(vec![a]));
    let pb = || std::path::PathBuf::from(std::ffi::OsString::from_vec(vec![b, a]));
    let which: u8 = kani::any();
    kani::assume(which < 5);
    match which {
        0 => {
            let mut f = super::open_file(sq.clone(), pa());
            let (res, args) = ops::resources_args(&mut f.state);
            assert!(res.0.as_bytes() == [a] && matches!(res.1, crate::fd::Kind::File));
            assert!(args.0 == libc::O_RDONLY | libc::O_CLOEXEC, "read-only, close-on-exec");
            std::mem::forget(f);
        }
        1 => {
            let mut f = super::create_dir(sq.clone(), pb());
            let (res, _) = ops::resources_args(&mut f.state);
            assert!(res.as_bytes() == [b, a]);
            std::mem::forget(f);
        }
        2 => {
            let mut f = super::rename(sq.clone(), pa(), pb());
            let (res, _) = ops::resources_args(&mut f.state);
            assert!(res.0.as_bytes() == [a] && res.1.as_bytes() == [b, a], "(from, to) in that order");
            std::mem::forget(f);
        }
        3 => {
            let mut f = super::remove_file(sq.clone(), pa());
            let (res, args) = ops::resources_args(&mut f.state);
            assert!(res.as_bytes() == [a] && matches!(*args, super::RemoveFlag::File), "removes a file");
            std::mem::forget(f);
        }
        _ => {
            let mut f = super::remove_dir(sq.clone(), pb());
            let (res, args) = ops::resources_args(&mut f.state);
            assert!(res.as_bytes() == [b, a] && matches!(*args, super::RemoveFlag::Directory), "removes a directory");
            std::mem::forget(f);
        }
    }
    kani::cover!(which == 2);
    kani::cover!(which == 4);
    std::mem::forget(sq);
}
