//@@ attach: src/fs.rs
//! Accessors for C13 (private fields of `fs` futures).
#![allow(dead_code, unused_imports, clippy::all, clippy::pedantic)]

pub(crate) fn stat_res_addr(f: &super::Stat<'_>) -> usize {
    crate::io_uring::op::verif_opsup::resources_addr(&f.state)
}
