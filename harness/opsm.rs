//@@ attach: src/io_uring/op.rs
//! Operation state machine (C01, C02, C03, C06, C09): step harnesses over the
//! real `Shared::update`, `Completion::process`, `poll_inner` (through the real
//! generic front ends `poll`/`poll_next`) and `State::drop`, each ONE call
//! from an arbitrary state built directly.
//!
//! The operation is a harness-defined one (`Res` resources with a heap buffer
//! and a drop counter, a recognisable submission): `poll_inner`, `update`,
//! `drop` and `drop_state` are generic over the operation, so this exercises
//! exactly the code every real operation runs.
#![allow(dead_code, unused_imports, static_mut_refs, clippy::all, clippy::pedantic)]

use std::sync::Arc;
use std::task::{Context, Poll};

use super::verif_opsup as ops;
use super::{
    CompletionFlags, CompletionResult, Multishot, OpResult, OpReturn, Shared, Singleshot, State, Status, StatusUpdate,
    Submission, poll, poll_next,
};
use crate::io_uring::cq::Completion;
use crate::io_uring::verif_kernel as k;
use crate::io_uring::{Submissions, libc};
use crate::op::OpState;
use crate::{AsyncFd, SubmissionQueue, fd};

const F_MORE: u32 = libc::IORING_CQE_F_MORE;
const F_NOTIF: u32 = libc::IORING_CQE_F_NOTIF;
const OPCODE: u8 = 77;

static mut RES_DROPS: crate::verif_stubs::V<u32> = crate::verif_stubs::V::new(0);

/// Resources of the harness operation: a heap buffer the "kernel" is given
/// the address of, and a drop counter.
struct Res {
    buf: Box<[u8; 4]>,
}

impl Drop for Res {
    fn drop(&mut self) {
        unsafe { RES_DROPS.v += 1 };
    }
}

fn res_drops() -> u32 {
    unsafe { RES_DROPS.v }
}

fn fill(_t: &SubmissionQueue, r: &mut Res, a: &mut u32, s: &mut Submission) {
    s.0.opcode = OPCODE;
    s.0.fd = 9;
    s.0.len = *a;
    s.0.__bindgen_anon_2 = libc::io_uring_sqe__bindgen_ty_2 { addr: r.buf.as_ptr().addr() as u64 };
}

fn map_ok(_t: &SubmissionQueue, r: Res, (_, n): OpReturn) -> (Res, u32) {
    (r, n)
}

fn map_next(_t: &SubmissionQueue, _r: &Res, (f, n): OpReturn) -> (u32, u32) {
    (n, f.0)
}

fn fallback<R>(_t: &SubmissionQueue, r: R, _a: &mut u32, e: std::io::Error) -> std::io::Result<(R, u32)> {
    std::mem::forget(r);
    Err(e)
}

fn fallback_next(_t: &SubmissionQueue, _r: &Res, _a: &mut u32, e: std::io::Error) -> std::io::Result<(u32, u32)> {
    Err(e)
}

/// Ring with `free` free submission slots (len 2) and its queue handle.
fn ring(free: u32) -> SubmissionQueue {
    unsafe { RES_DROPS.v = 0 };
    k::install(k::base_table());
    k::sq_set(0, 2 - free);
    SubmissionQueue(crate::io_uring::sq::verif_c04::submissions_in_place(2, false, false))
}

fn new_res() -> Res {
    Res { buf: Box::new([1, 2, 3, 4]) }
}

fn cqe(user_data: u64, res: i32, flags: u32) -> Completion {
    let mut c: Completion = Completion(unsafe { std::mem::zeroed() });
    c.0.user_data = user_data;
    c.0.res = res;
    c.0.flags = flags;
    c
}

fn cr(res: i32, flags: u32) -> CompletionResult {
    CompletionResult { flags: CompletionFlags(flags), result: res }
}

// ===========================================================================
// Shared::update (pure)
// ===========================================================================

//@ prop: C02 C03
//@ tier: quick
//@ what: Shared<Singleshot>::update from Running or Done with ANY completion (res, flags): the result is stored unless it is the zero-copy notification (F_NOTIF), which must not overwrite the first completion's value; Running->Done exactly when F_MORE is clear; the stored waker is handed back for waking exactly when the operation became done, otherwise it stays stored
//@ bound: status in {Running, Done}; stored result, completion res and flags any i32/u32; waker present or not
//@ encodes: io_uring::op::Shared::update; <io_uring::op::Singleshot as OpResult>::update; io_uring::cq::Completion::complete
//@ stubs: Waker::{drop,clone,wake,wake_by_ref} -> direct calls to the counting waker
#[kani::proof]
#[kani::unwind(3)]
#[kani::stub(<std::task::Waker as std::ops::Drop>::drop, crate::io_uring::verif_kernel::waker_drop_direct)]
#[kani::stub(<std::task::Waker as std::clone::Clone>::clone, crate::io_uring::verif_kernel::waker_clone_direct)]
fn sm_update_single() {
    let was_done: bool = kani::any();
    let old = (kani::any::<i32>(), kani::any::<u32>());
    let has_waker: bool = kani::any();
    let mut s = Shared {
        status: if was_done { Status::Done { results: Singleshot(cr(old.0, old.1)) } } else { Status::Running { results: Singleshot(cr(old.0, old.1)) } },
        waker: if has_waker { Some(k::waker(0)) } else { None },
    };
    let (res, flags): (i32, u32) = (kani::any(), kani::any());
    let c = cqe(0x1000, res, flags);
    let up = s.update(&c);
    let done = flags & F_MORE == 0;
    let want = if flags & F_NOTIF != 0 { old } else { (res, flags) };
    match &s.status {
        Status::Done { results } => {
            assert!(done || was_done, "becomes Done only on the final completion");
            assert!((results.0.result, results.0.flags.0) == want, "result stored; notification does not overwrite it");
        }
        Status::Running { results } => {
            assert!(!done && !was_done);
            assert!((results.0.result, results.0.flags.0) == want);
        }
        _ => assert!(false, "status must stay Running/Done"),
    }
    match up {
        StatusUpdate::Wake(w) => {
            assert!(done && has_waker, "single-shot: woken only when done");
            assert!(k::waker_id(&w) == Some(0) && s.waker.is_none());
            std::mem::forget(w);
        }
        StatusUpdate::Ok => {
            assert!(!(done && has_waker), "done with a stored waker must wake it");
            assert!(s.waker.is_some() == has_waker, "waker kept until needed");
        }
        StatusUpdate::Drop { .. } => assert!(false, "a live operation is never reclaimed by a completion"),
    }
    kani::cover!(flags & F_NOTIF != 0 && done, "zero-copy notification");
    kani::cover!(!done);
    std::mem::forget(s);
}

//@ prop: C02 C03
//@ tier: quick
//@ what: Shared<Multishot>::update from Running with 0..=2 queued results and ANY completion: the result is appended at the back (FIFO), earlier results untouched; Running->Done exactly when F_MORE is clear; the stored waker is handed back on EVERY completion
//@ bound: 0..=2 results already queued (symbolic values); completion res/flags any; waker present or not
//@ encodes: io_uring::op::Shared::update; <io_uring::op::Multishot as OpResult>::update
//@ stubs: Waker::{drop,clone} -> direct calls
#[kani::proof]
#[kani::unwind(4)]
#[kani::stub(<std::task::Waker as std::ops::Drop>::drop, crate::io_uring::verif_kernel::waker_drop_direct)]
#[kani::stub(<std::task::Waker as std::clone::Clone>::clone, crate::io_uring::verif_kernel::waker_clone_direct)]
fn sm_update_multi() {
    let n0: usize = kani::any();
    kani::assume(n0 <= 2);
    let old: [(i32, u32); 2] = [(kani::any(), kani::any()), (kani::any(), kani::any())];
    let mut v = Vec::with_capacity(4);
    if n0 >= 1 {
        v.push(cr(old[0].0, old[0].1));
    }
    if n0 >= 2 {
        v.push(cr(old[1].0, old[1].1));
    }
    let has_waker: bool = kani::any();
    let mut s = Shared { status: Status::Running { results: Multishot(v) }, waker: if has_waker { Some(k::waker(1)) } else { None } };
    let (res, flags): (i32, u32) = (kani::any(), kani::any());
    let up = s.update(&cqe(0x1001, res, flags));
    let done = flags & F_MORE == 0;
    let results = match &s.status {
        Status::Done { results } => {
            assert!(done);
            results
        }
        Status::Running { results } => {
            assert!(!done);
            results
        }
        _ => {
            assert!(false, "status must stay Running/Done");
            return;
        }
    };
    assert!(results.0.len() == n0 + 1, "exactly one result appended");
    assert!(results.0[n0].result == res && results.0[n0].flags.0 == flags, "appended at the back");
    if n0 >= 1 {
        assert!(results.0[0].result == old[0].0 && results.0[0].flags.0 == old[0].1, "earlier results untouched, in order");
    }
    if n0 >= 2 {
        assert!(results.0[1].result == old[1].0);
    }
    match up {
        StatusUpdate::Wake(w) => {
            assert!(has_waker && k::waker_id(&w) == Some(1) && s.waker.is_none());
            std::mem::forget(w);
        }
        StatusUpdate::Ok => assert!(!has_waker, "multishot: every completion wakes the stored waker"),
        StatusUpdate::Drop { .. } => assert!(false, "a live operation is never reclaimed by a completion"),
    }
    kani::cover!(n0 == 2 && !done);
    kani::cover!(done);
    std::mem::forget(s);
}

unsafe fn marker_drop(_: *mut ()) {}

//@ prop: C01 C06
//@ tier: quick
//@ what: Shared::update on an abandoned (Dropped) operation with ANY completion: the state is handed to its destructor exactly when the completion is final (F_MORE clear) -- so kernel-shared memory stays until the LAST completion, in particular until the zero-copy notification -- and the destructor returned is the one recorded at drop time
//@ bound: completion res/flags any; single- and multishot
//@ encodes: io_uring::op::Shared::update
#[kani::proof]
#[kani::unwind(2)]
fn sm_update_dropped() {
    let (res, flags): (i32, u32) = (kani::any(), kani::any());
    let c = cqe(0x1000, res, flags);
    let up = if kani::any() {
        let mut s: Shared<Singleshot> = Shared { status: Status::Dropped { drop: marker_drop }, waker: None };
        let up = s.update(&c);
        assert!(matches!(s.status, Status::Dropped { .. }));
        up
    } else {
        let mut s: Shared<Multishot> = Shared { status: Status::Dropped { drop: marker_drop }, waker: None };
        let up = s.update(&c);
        assert!(matches!(s.status, Status::Dropped { .. }));
        up
    };
    match up {
        StatusUpdate::Drop { drop } => {
            assert!(flags & F_MORE == 0, "reclaimed only on the final completion");
            assert!(drop as usize == marker_drop as usize, "with the destructor recorded at drop time");
        }
        StatusUpdate::Ok => assert!(flags & F_MORE != 0, "final completion must reclaim the state"),
        StatusUpdate::Wake(_) => assert!(false, "nobody to wake"),
    }
    kani::cover!(flags & F_MORE != 0 && flags & F_NOTIF == 0);
    kani::cover!(flags & F_NOTIF != 0 && flags & F_MORE == 0);
}

// ===========================================================================
// Completion::process: dispatch by user_data (pointer | tag)
// ===========================================================================

//@ prop: C02
//@ tier: quick
//@ what: Completion::process dispatches by user_data: with one single-shot and one multishot operation in flight and a completion addressed to either (symbolic), only the addressed operation changes, it gets exactly that result, the tag bit selects the right state type, and its waker is woken exactly once
//@ bound: 2 operations; target symbolic; res any i32; final completion
//@ encodes: io_uring::cq::Completion::process; io_uring::op::Shared::update; io_uring::op::State::user_data
//@ stubs: crate::lock -> try_lock model; Waker -> direct calls; <core::io::CustomOwner as Drop>::drop -> no-op
#[kani::proof]
#[kani::unwind(3)]
#[kani::stub(crate::lock, crate::verif_stubs::lock_model)]
#[kani::stub(<core::io::CustomOwner as core::ops::Drop>::drop, crate::verif_stubs::custom_owner_drop_noop)]
#[kani::stub(<std::task::Waker as std::ops::Drop>::drop, crate::io_uring::verif_kernel::waker_drop_direct)]
#[kani::stub(<std::task::Waker as std::clone::Clone>::clone, crate::io_uring::verif_kernel::waker_clone_direct)]
#[kani::stub(std::task::Waker::wake, crate::io_uring::verif_kernel::waker_wake_direct)]
fn sm_process_dispatch() {
    let mut a: State<Singleshot, Res, u32> = State::new(new_res(), 4);
    let mut b: State<Multishot, Res, u32> = State::new(new_res(), 4);
    ops::force_running(&mut a, 0, 0, Some(k::waker(0)));
    ops::force_multi(&mut b, false, &[], Some(k::waker(1)));
    let (ua, ub) = (a.user_data(), b.user_data());
    assert!(ua & 1 == 0 && ub & 1 == 1, "tag bit: multishot");
    assert!(ua == a.data.as_ptr().addr() as u64 && ub == (b.data.as_ptr().addr() as u64 | 1), "user_data is the address of the operation's data");
    let to_a: bool = kani::any();
    let res: i32 = kani::any();
    let c = cqe(if to_a { ua } else { ub }, res, 0);
    unsafe { crate::io_uring::cq::verif_c05::process(&c) };
    if to_a {
        assert!(ops::state_tag(&a) == ops::Tag::Done && ops::state_single_result(&a) == Some((res, 0)));
        assert!(ops::state_tag(&b) == ops::Tag::Running && ops::state_multi_results(&b).0 == 0, "neighbour untouched");
        assert!(k::wakes(0) == 1 && k::wakes(1) == 0);
    } else {
        assert!(ops::state_tag(&b) == ops::Tag::Done);
        let (n, r) = ops::state_multi_results(&b);
        assert!(n == 1 && r[0] == (res, 0));
        assert!(ops::state_tag(&a) == ops::Tag::Running && ops::state_single_result(&a) == Some((0, 0)), "neighbour untouched");
        assert!(k::wakes(1) == 1 && k::wakes(0) == 0);
    }
    kani::cover!(to_a);
    kani::cover!(!to_a);
    std::mem::forget(a);
    std::mem::forget(b);
}

// ===========================================================================
// poll_inner, single-shot
// ===========================================================================

macro_rules! sm_stubs {
    (@unwind $u:expr; $($item:item)*) => { $(
        #[kani::proof]
        #[kani::unwind($u)]
        #[kani::stub(crate::lock, crate::verif_stubs::lock_model)]
        #[kani::stub(<core::io::CustomOwner as core::ops::Drop>::drop, crate::verif_stubs::custom_owner_drop_noop)]
        #[kani::stub(<std::task::Waker as std::ops::Drop>::drop, crate::io_uring::verif_kernel::waker_drop_direct)]
        #[kani::stub(<std::task::Waker as std::clone::Clone>::clone, crate::io_uring::verif_kernel::waker_clone_direct)]
        #[kani::stub(std::task::Waker::wake, crate::io_uring::verif_kernel::waker_wake_direct)]
        #[kani::stub(std::task::Waker::wake_by_ref, crate::io_uring::verif_kernel::waker_wake_by_ref_direct)]
        $item
    )* };
    ($($item:item)*) => { sm_stubs!(@unwind 3; $($item)*); };
}

fn expect_request(at: usize, st: &State<impl OpResult, Res, u32>, buf_addr: usize, len: u32) {
    let e = k::sqe_view(k::sqe(at));
    let mut want = k::ZERO_SQE;
    want.opcode = OPCODE;
    want.fd = 9;
    want.len = len;
    want.addr = buf_addr as u64;
    want.user_data = st.user_data();
    assert!(e == want, "the submission is exactly the operation's request, addressed with its own user_data");
}

fn drop_case(full: bool, which: u8) {
    let sq = ring(if full { 0 } else { 2 });
    let mut st: State<Singleshot, Res, u32> = State::new(new_res(), 4);
    let buf: *mut u8 = unsafe { st.data.as_ref().tail.resources.get().cast::<Res>().as_ref().unwrap().buf.as_ptr().cast_mut() };
    let ud = st.user_data();
    match which {
        0 => {}
        1 => ops::force_running(&mut st, 0, 0, Some(k::waker(0))),
        2 => ops::force_done(&mut st, 3, 0),
        _ => {
            ops::force_done(&mut st, 3, 0);
            // what poll_inner does when it resolves: Complete + resources moved out
            let r = ops::complete_and_take(&mut st);
            std::mem::forget(r);
        }
    }
    let tail0 = k::sq_tail();
    unsafe { OpState::drop(&mut st, &sq) };
    if which == 1 {
        assert!(res_drops() == 0, "in flight: nothing released yet");
        // the kernel can still write the buffer it was given
        unsafe { buf.write(0xAB) };
        assert!(ops::state_tag(&st) == ops::Tag::Dropped);
        if full {
            assert!(k::sq_tail() == tail0, "no room: no cancel request");
        } else {
            assert!(k::sq_tail() == tail0 + 1, "exactly one cancel request");
            let e = k::sqe_view(k::sqe(0));
            let mut want = k::ZERO_SQE;
            want.opcode = libc::IORING_OP_ASYNC_CANCEL as u8;
            want.addr = ud;
            want.user_data = 2;
            want.flags = libc::IOSQE_CQE_SKIP_SUCCESS;
            assert!(e == want, "cancels exactly this operation");
        }
    } else {
        assert!(k::sq_tail() == tail0, "not in flight: no cancel request");
        assert!(res_drops() == if which == 3 { 0 } else { 1 }, "resources released exactly once (never twice)");
    }
    std::mem::forget(sq);
}

sm_stubs! {

//@ prop: C03 C02
//@ tier: quick
//@ what: first poll of an operation with room in the submission queue: Pending, exactly one submission (the operation's request carrying its own user_data = address|tag), status Running, and the waker of THIS poll is stored
//@ bound: ring of 2 with 1 or 2 free slots; single-shot
//@ encodes: io_uring::op::poll; io_uring::op::poll_inner (NotStarted arm); io_uring::sq::Submissions::add
//@ stubs: crate::lock -> try_lock model; Waker::{drop,clone,wake,wake_by_ref} -> direct calls to the counting waker; <core::io::CustomOwner as Drop>::drop -> no-op
fn sm_poll_start() {
    let free: u32 = if kani::any() { 1 } else { 2 };
    let sq = ring(free);
    let mut st: State<Singleshot, Res, u32> = State::new(new_res(), 4);
    let buf_addr = unsafe { st.data.as_ref().tail.resources.get().cast::<Res>().as_ref().unwrap().buf.as_ptr().addr() };
    let w = k::waker(2);
    let mut ctx = Context::from_waker(&w);
    let r = poll(&sq, &mut st, &mut ctx, fill, map_ok, fallback);
    assert!(r.is_pending());
    assert!(k::sq_tail() == (2 - free) + 1, "exactly one submission");
    expect_request((2 - free) as usize, &st, buf_addr, 4);
    assert!(ops::state_tag(&st) == ops::Tag::Running);
    assert!(ops::state_waker(&st) == Some(2), "waker of this poll recorded under the operation lock");
    assert!(res_drops() == 0);
    kani::cover!(free == 1);
    std::mem::forget(r);
    std::mem::forget(st);
    std::mem::forget(sq);
}

//@ prop: C03 C04
//@ tier: quick
//@ what: first poll with a FULL submission queue: Pending, nothing submitted, the operation stays NotStarted and the waker of this poll is registered in the list of futures waiting for a submission slot (so a later kernel entry can wake it)
//@ bound: ring of 2, full; nobody else waiting yet
//@ encodes: io_uring::op::poll_inner (NotStarted arm, QueueFull); io_uring::sq::Submissions::wait_for_submission
//@ stubs: crate::lock -> try_lock model; Waker -> direct calls; <core::io::CustomOwner as Drop>::drop -> no-op
fn sm_poll_queue_full() {
    let sq = ring(0);
    let already = false;
    let mut st: State<Singleshot, Res, u32> = State::new(new_res(), 4);
    let w = k::waker(2);
    let mut ctx = Context::from_waker(&w);
    let r = poll(&sq, &mut st, &mut ctx, fill, map_ok, fallback);
    assert!(r.is_pending());
    assert!(k::sq_tail() == 2, "nothing submitted");
    assert!(ops::state_tag(&st) == ops::Tag::NotStarted, "will be retried");
    // peek without locking (sequential harness, no guard alive)
    let blocked: &Vec<std::task::Waker> = unsafe { &*sq.submissions().shared().blocked_futures.data_ptr() };
    assert!(blocked.len() == 1 + already as usize, "registered for a free slot");
    assert!(k::waker_id(&blocked[already as usize]) == Some(2), "with the waker of this poll");
    kani::cover!(true);
    std::mem::forget(r);
    std::mem::forget(st);
    std::mem::forget(sq);
}

//@ prop: C03
//@ tier: quick
//@ what: re-poll of a running single-shot operation with the same or a REPLACED waker: Pending, nothing submitted, and the stored waker afterwards wakes the task of the most recent poll
//@ bound: stored waker id 0; polled with waker 0 or 2
//@ encodes: io_uring::op::poll_inner (Running arm); io_uring::op::set_waker
//@ stubs: crate::lock -> try_lock model; Waker -> direct calls; <core::io::CustomOwner as Drop>::drop -> no-op
fn sm_poll_running_refreshes_waker() {
    let sq = ring(2);
    let mut st: State<Singleshot, Res, u32> = State::new(new_res(), 4);
    let stored: bool = kani::any();
    ops::force_running(&mut st, 0, 0, if stored { Some(k::waker(0)) } else { None });
    let id = if kani::any() { 0 } else { 2 };
    let w = k::waker(id);
    let mut ctx = Context::from_waker(&w);
    let r = poll(&sq, &mut st, &mut ctx, fill, map_ok, fallback);
    assert!(r.is_pending());
    assert!(k::sq_tail() == 0 && ops::state_tag(&st) == ops::Tag::Running);
    assert!(ops::state_waker(&st) == Some(id), "the most recent poll's waker is the one that will be woken");
    kani::cover!(stored && id == 2, "waker replaced");
    kani::cover!(!stored);
    std::mem::forget(r);
    std::mem::forget(st);
    std::mem::forget(sq);
}

//@ prop: C02 C09
//@ tier: quick
//@ what: poll of a single-shot operation that is Done with ANY stored result except EINTR/ECANCELED: resolves exactly once with that result (Ok(n) for n >= 0, the errno otherwise), the resources are moved out (not dropped, not duplicated), status Complete, nothing submitted
//@ bound: stored result any i32 >= -4095 other than -EINTR/-ECANCELED; flags any
//@ assumes: kernel results are >= -MAX_ERRNO (-4095)
//@ encodes: io_uring::op::poll_inner (Done arm); io_uring::op::CompletionResult::check_result
//@ stubs: crate::lock -> try_lock model; Waker -> direct calls; <core::io::CustomOwner as Drop>::drop -> no-op
fn sm_poll_done() {
    let sq = ring(2);
    let mut st: State<Singleshot, Res, u32> = State::new(new_res(), 4);
    let res: i32 = kani::any();
    kani::assume(res != -libc::EINTR && res != -libc::ECANCELED);
    // kernel contract: a completion result is a count or -errno with errno <= MAX_ERRNO (4095)
    kani::assume(res >= -4095);
    ops::force_done(&mut st, res, kani::any());
    let w = k::waker(2);
    let mut ctx = Context::from_waker(&w);
    match poll(&sq, &mut st, &mut ctx, fill, map_ok, fallback) {
        Poll::Ready(Ok((r, n))) => {
            assert!(res >= 0 && n == res as u32, "the kernel's result for this very submission");
            assert!(res_drops() == 0, "resources handed to the caller, not dropped");
            std::mem::forget(r);
        }
        Poll::Ready(Err(e)) => {
            assert!(res < 0 && e.raw_os_error() == Some(-res), "the kernel's error for this very submission");
            std::mem::forget(e);
        }
        Poll::Pending => assert!(false, "a finished operation must resolve"),
    }
    assert!(ops::state_tag(&st) == ops::Tag::Complete && k::sq_tail() == 0);
    kani::cover!(res > 0);
    kani::cover!(res < 0);
    std::mem::forget(st);
    std::mem::forget(sq);
}

//@ prop: C09 C01
//@ tier: quick
//@ what: poll of a single-shot operation whose completion was EINTR or ECANCELED (not dropped by the caller): the caller sees Pending -- never the interruption --, exactly one new submission byte-identical to the original request (same buffer address, length, user_data), the resources are the same objects (not dropped, not re-created), status Running with this poll's waker; with a full queue it stays NotStarted and waits for a slot
//@ bound: res in {-EINTR, -ECANCELED}; queue with room or full
//@ encodes: io_uring::op::poll_inner (Done arm -> restart -> NotStarted arm)
//@ stubs: crate::lock -> try_lock model; Waker -> direct calls; <core::io::CustomOwner as Drop>::drop -> no-op
fn sm_poll_restart() {
    let full: bool = kani::any();
    let sq = ring(if full { 0 } else { 2 });
    let mut st: State<Singleshot, Res, u32> = State::new(new_res(), 4);
    let buf_addr = unsafe { st.data.as_ref().tail.resources.get().cast::<Res>().as_ref().unwrap().buf.as_ptr().addr() };
    let res = if kani::any() { -libc::EINTR } else { -libc::ECANCELED };
    ops::force_done(&mut st, res, 0);
    let w = k::waker(2);
    let mut ctx = Context::from_waker(&w);
    let r = poll(&sq, &mut st, &mut ctx, fill, map_ok, fallback);
    assert!(r.is_pending(), "the interruption is not observable");
    assert!(res_drops() == 0, "resources neither dropped nor re-created");
    let now = unsafe { st.data.as_ref().tail.resources.get().cast::<Res>().as_ref().unwrap().buf.as_ptr().addr() };
    assert!(now == buf_addr, "same buffer");
    if full {
        assert!(k::sq_tail() == 2 && ops::state_tag(&st) == ops::Tag::NotStarted);
    } else {
        assert!(k::sq_tail() == 1, "re-issued exactly once");
        expect_request(0, &st, buf_addr, 4);
        assert!(ops::state_tag(&st) == ops::Tag::Running && ops::state_waker(&st) == Some(2));
    }
    kani::cover!(full);
    kani::cover!(!full && res == -libc::ECANCELED);
    std::mem::forget(r);
    std::mem::forget(st);
    std::mem::forget(sq);
}

// ===========================================================================
// poll_inner, multishot
// ===========================================================================

//@ prop: C02 C03
//@ tier: quick
//@ what: poll_next of a multishot operation, Running or Done, with 0..=2 queued results: results are handed out front first, each exactly once (the queue shrinks by one, the rest keeps its order); with none queued a Running stream is Pending with this poll's waker stored, a Done stream ends (None) exactly once, releasing its resources exactly once
//@ bound: status in {Running, Done}; 0..=2 queued non-negative results (symbolic count; 3 and 4 queued: sm_poll_next_queue_order)
//@ encodes: io_uring::op::poll_next; io_uring::op::poll_inner (multishot Running/Done arms); <io_uring::op::Multishot as OpResult>::next
//@ stubs: crate::lock -> try_lock model; Waker -> direct calls; <core::io::CustomOwner as Drop>::drop -> no-op
fn sm_poll_next_multi() {
    let sq = ring(2);
    let mut st: State<Multishot, Res, u32> = State::new(new_res(), 4);
    let done: bool = kani::any();
    let n0: usize = kani::any();
    kani::assume(n0 <= 2);
    let r0: i32 = kani::any();
    let r1: i32 = kani::any();
    let r2: i32 = kani::any();
    kani::assume(r0 >= 0 && r1 >= 0 && r2 >= 0);
    let all = [(r0, 1u32), (r1, 2u32), (r2, 3u32)];
    // concrete slice length per branch (the helper's pushes then fold)
    match n0 {
        0 => ops::force_multi(&mut st, done, &[], None),
        1 => ops::force_multi(&mut st, done, &all[..1], None),
        _ => ops::force_multi(&mut st, done, &all[..2], None),
    }
    let w = k::waker(2);
    let mut ctx = Context::from_waker(&w);
    let r = poll_next(&sq, &mut st, &mut ctx, fill, map_next, fallback_next);
    match r {
        Poll::Ready(Some(Ok((n, f)))) => {
            assert!(n0 >= 1 && n == r0 as u32 && f == 1, "oldest result first");
            let (left, rest) = ops::state_multi_results(&st);
            assert!(left == n0 - 1, "handed out exactly once");
            assert!(n0 < 2 || rest[0] == (r1, 2), "order of the remaining results kept");
            assert!(n0 < 3 || rest[1] == (r2, 3), "order of the remaining results kept");
            assert!(res_drops() == 0);
        }
        Poll::Ready(Some(Err(_))) => assert!(false, "non-negative results are not errors"),
        Poll::Ready(None) => {
            assert!(done && n0 == 0, "ends only after the final completion and the last result");
            assert!(ops::state_tag(&st) == ops::Tag::Complete);
            assert!(res_drops() == 1, "resources released exactly once at the end of the stream");
        }
        Poll::Pending => {
            assert!(!done && n0 == 0);
            assert!(ops::state_waker(&st) == Some(2), "waker of this poll stored");
        }
    }
    assert!(k::sq_tail() == 0);
    kani::cover!(n0 == 2 && !done);
    kani::cover!(n0 == 2 && done);
    kani::cover!(done && n0 == 0);
    kani::cover!(!done && n0 == 0);
    std::mem::forget(st);
    std::mem::forget(sq);
}

//@ prop: C02
//@ tier: quick
//@ what: with 3 or 4 results queued (the final completion arrived together with earlier ones) poll_next hands out the OLDEST one and the remaining ones keep the kernel's order -- the queue is a FIFO, not a bag
//@ bound: exactly 3 or 4 queued results with symbolic values (concrete count: a symbolic Vec length makes Vec::remove's memmove blow up); Running or Done
//@ encodes: io_uring::op::poll_next; io_uring::op::poll_inner; <io_uring::op::Multishot as OpResult>::next
//@ stubs: crate::lock -> try_lock model; Waker -> direct calls; <core::io::CustomOwner as Drop>::drop -> no-op
fn sm_poll_next_queue_order() {
    let sq = ring(2);
    let mut st: State<Multishot, Res, u32> = State::new(new_res(), 4);
    let done: bool = kani::any();
    let r: [i32; 4] = kani::any();
    kani::assume(r[0] >= 0 && r[1] >= 0 && r[2] >= 0 && r[3] >= 0);
    let all = [(r[0], 1u32), (r[1], 2u32), (r[2], 3u32), (r[3], 4u32)];
    let four: bool = kani::any();
    if four {
        ops::force_multi(&mut st, done, &all[..4], None);
    } else {
        ops::force_multi(&mut st, done, &all[..3], None);
    }
    let w = k::waker(2);
    let mut ctx = Context::from_waker(&w);
    match poll_next(&sq, &mut st, &mut ctx, fill, map_next, fallback_next) {
        Poll::Ready(Some(Ok((n, f)))) => assert!(n == r[0] as u32 && f == 1, "oldest result first"),
        _ => assert!(false, "a queued result must be yielded"),
    }
    let (left, rest) = ops::state_multi_results(&st);
    assert!(left == if four { 3 } else { 2 });
    assert!(rest[0] == (r[1], 2) && rest[1] == (r[2], 3), "remaining results keep the kernel's order");
    assert!(!four || rest[2] == (r[3], 4));
    kani::cover!(four && done);
    kani::cover!(!four);
    std::mem::forget(st);
    std::mem::forget(sq);
}

//@ prop: C09
//@ tier: quick
//@ what: a multishot stream whose LAST result is EINTR/ECANCELED is re-armed transparently: Pending, one new submission identical to the original, same resources; an EINTR/ECANCELED is never yielded to the caller
//@ bound: Done stream with exactly the interruption queued; res in {-EINTR,-ECANCELED}
//@ encodes: io_uring::op::poll_inner (multishot Done arm -> restart)
//@ stubs: crate::lock -> try_lock model; Waker -> direct calls; <core::io::CustomOwner as Drop>::drop -> no-op
fn sm_poll_next_restart() {
    let sq = ring(2);
    let mut st: State<Multishot, Res, u32> = State::new(new_res(), 4);
    let buf_addr = unsafe { st.data.as_ref().tail.resources.get().cast::<Res>().as_ref().unwrap().buf.as_ptr().addr() };
    let res = if kani::any() { -libc::EINTR } else { -libc::ECANCELED };
    ops::force_multi(&mut st, true, &[(res, 0)], None);
    let w = k::waker(2);
    let mut ctx = Context::from_waker(&w);
    let r = poll_next(&sq, &mut st, &mut ctx, fill, map_next, fallback_next);
    assert!(r.is_pending(), "the interruption is not observable");
    assert!(k::sq_tail() == 1 && res_drops() == 0);
    expect_request(0, &st, buf_addr, 4);
    assert!(ops::state_tag(&st) == ops::Tag::Running && ops::state_waker(&st) == Some(2));
    kani::cover!(res == -libc::EINTR);
    std::mem::forget(r);
    std::mem::forget(st);
    std::mem::forget(sq);
}

// ===========================================================================
// State::drop and reclamation
// ===========================================================================

//@ prop: C06 C01
//@ tier: quick
//@ what: dropping an operation in ANY state: Running -> exactly one ASYNC_CANCEL for exactly this operation (addr = its user_data, user_data = 2, no-success-event) when the queue has room, none when it is full, and in both cases the state is only marked Dropped: data and resources stay allocated (the kernel may still write the buffer); NotStarted/Done -> no cancel, resources dropped exactly once and the data freed now; Complete -> no cancel, resources NOT dropped again
//@ bound: status in {NotStarted, Running, Done, Complete}; queue with room or full
//@ encodes: <io_uring::op::State as OpState>::drop; io_uring::op::drop_state; io_uring::sq::Submissions::cancel
//@ stubs: crate::lock -> try_lock model; Waker -> direct calls; <core::io::CustomOwner as Drop>::drop -> no-op
fn sm_drop_any_state() {
    let full: bool = kani::any();
    let which: u8 = kani::any();
    kani::assume(which < 4);
    drop_case(full, which);
    kani::cover!(which == 1 && !full);
    kani::cover!(which == 1 && full);
    kani::cover!(which == 3);
}

//@ prop: C06 C01
//@ tier: quick
//@ what: concrete instance of sm_drop_any_state (a finished-but-unpolled operation dropped: resources released exactly once, no cancel): exists so that a counterexample has a cheap native replay (the symbolic harness's trace generation needs > 18 GB / 10 min)
//@ bound: status Done; queue with room
//@ encodes: <io_uring::op::State as OpState>::drop; io_uring::op::drop_state; io_uring::sq::Submissions::cancel
//@ stubs: crate::lock -> try_lock model; Waker -> direct calls; <core::io::CustomOwner as Drop>::drop -> no-op
//@ concrete: yes
fn sm_drop_done_concrete() {
    drop_case(false, 2);
    kani::cover!(true);
}

//@ prop: C06 C01
//@ tier: quick
//@ what: an abandoned (dropped while running) operation is reclaimed by its FINAL completion only, exactly once: a completion with F_MORE leaves data and resources allocated (the buffer is still writable by the kernel), the final one (whatever its result: cancelled or completed normally -- both outcomes of the cancel race) drops the resources once and frees the data; the cancellation acknowledgement (user_data 2) touches nothing
//@ bound: single-shot; first completion with or without F_MORE (two-step / zero-copy shape); results any i32
//@ encodes: <io_uring::op::State as OpState>::drop; io_uring::cq::Completion::process; io_uring::op::Shared::update; io_uring::op::drop_state
//@ stubs: crate::lock -> try_lock model; Waker -> direct calls; <core::io::CustomOwner as Drop>::drop -> no-op
fn sm_reclaim_once() {
    let sq = ring(2);
    let mut st: State<Singleshot, Res, u32> = State::new(new_res(), 4);
    let buf: *mut u8 = unsafe { st.data.as_ref().tail.resources.get().cast::<Res>().as_ref().unwrap().buf.as_ptr().cast_mut() };
    let ud = st.user_data();
    ops::force_running(&mut st, 0, 0, Some(k::waker(0)));
    unsafe { OpState::drop(&mut st, &sq) };
    // cancel acknowledgement: ignored, whatever its result
    unsafe { crate::io_uring::cq::verif_c05::process(&cqe(2, kani::any(), 0)) };
    assert!(res_drops() == 0);
    let two_step: bool = kani::any();
    if two_step {
        unsafe { crate::io_uring::cq::verif_c05::process(&cqe(ud, kani::any(), F_MORE)) };
        assert!(res_drops() == 0, "more completions coming: still allocated");
        unsafe { buf.write(0xCD) };
    }
    unsafe { buf.write(0xEF) };
    unsafe { crate::io_uring::cq::verif_c05::process(&cqe(ud, kani::any(), if two_step { F_NOTIF } else { 0 })) };
    assert!(res_drops() == 1, "reclaimed exactly once by the final completion");
    assert!(k::wakes(0) == 0, "the dropped future's waker is not woken");
    kani::cover!(two_step);
    kani::cover!(!two_step);
    std::mem::forget(sq);
}

//@ prop: C06 C01
//@ tier: quick
//@ what: the same for a MULTISHOT operation dropped mid-stream: Running with 0..=2 results still queued -> exactly one ASYNC_CANCEL for exactly this operation, state only marked Dropped; every further completion with F_MORE leaves it allocated; the final completion (any result) releases the resources exactly once; a stream that had already ended (Done, results still queued or not) or never started -> no cancel, released exactly once immediately
//@ bound: multishot; status in {NotStarted, Running, Done} with 0..=2 queued results (symbolic); one more F_MORE completion or not; results any i32
//@ encodes: <io_uring::op::State as OpState>::drop (multishot); io_uring::op::drop_state; io_uring::cq::Completion::process; io_uring::op::Shared::update
//@ stubs: crate::lock -> try_lock model; Waker -> direct calls; <core::io::CustomOwner as Drop>::drop -> no-op
fn sm_drop_multishot() {
    let sq = ring(2);
    let mut st: State<Multishot, Res, u32> = State::new(new_res(), 4);
    let buf: *mut u8 = unsafe { st.data.as_ref().tail.resources.get().cast::<Res>().as_ref().unwrap().buf.as_ptr().cast_mut() };
    let ud = st.user_data();
    let which: u8 = kani::any();
    kani::assume(which < 3);
    let queued: u8 = kani::any();
    kani::assume(queued <= 2);
    let rs = [(5, F_MORE), (6, F_MORE)];
    match which {
        0 => {}
        1 => ops::force_multi(&mut st, false, &rs[..queued as usize], Some(k::waker(0))),
        _ => ops::force_multi(&mut st, true, &rs[..queued as usize], Some(k::waker(0))),
    }
    let tail0 = k::sq_tail();
    unsafe { OpState::drop(&mut st, &sq) };
    if which == 1 {
        assert!(res_drops() == 0, "in flight: nothing released yet");
        assert!(ops::state_tag(&st) == ops::Tag::Dropped);
        assert!(k::sq_tail() == tail0 + 1, "exactly one cancel request");
        let e = k::sqe_view(k::sqe(0));
        let mut want = k::ZERO_SQE;
        want.opcode = libc::IORING_OP_ASYNC_CANCEL as u8;
        want.addr = ud;
        want.user_data = 2;
        want.flags = libc::IOSQE_CQE_SKIP_SUCCESS;
        assert!(e == want, "cancels exactly this operation");
        if kani::any() {
            unsafe { crate::io_uring::cq::verif_c05::process(&cqe(ud, kani::any(), F_MORE)) };
            assert!(res_drops() == 0, "more completions coming: still allocated");
        }
        unsafe { buf.write(0xEF) };
        unsafe { crate::io_uring::cq::verif_c05::process(&cqe(ud, kani::any(), 0)) };
        assert!(res_drops() == 1, "reclaimed exactly once by the final completion");
        assert!(k::wakes(0) == 0, "the dropped stream's waker is not woken");
    } else {
        assert!(k::sq_tail() == tail0, "not in flight: no cancel request");
        assert!(res_drops() == 1, "released exactly once, now");
    }
    kani::cover!(which == 1 && queued == 2);
    kani::cover!(which == 2 && queued == 1);
    kani::cover!(which == 0);
    std::mem::forget(sq);
}

}


// ===========================================================================
// C03: the window between a failed `add` (queue full) and the registration of
// the waiter.
// ===========================================================================

static mut RACE_ARMED: crate::verif_stubs::V<bool> = crate::verif_stubs::V::new(false);
static mut RACE_FIRED: crate::verif_stubs::V<bool> = crate::verif_stubs::V::new(false);
static mut RACE_AT: crate::verif_stubs::V<u32> = crate::verif_stubs::V::new(99);
static mut RACE_YIELDS: crate::verif_stubs::V<u32> = crate::verif_stubs::V::new(0);
static mut RACE_SHARED: crate::verif_stubs::V<*const crate::io_uring::Shared> = crate::verif_stubs::V::new(std::ptr::null());

/// Specification-level model of `Shared::wake_blocked_futures` (the real one is
/// decided on its own by sm_wake_blocked*: at least min(waiters, free slots)
/// waiters woken, longest-waiting first, the others kept): wakes the first
/// min(n, available) registered waiters and keeps the rest. Works on the list
/// through its data pointer (the list lock is not held at any call site).
fn wake_blocked_model(shared: &crate::io_uring::Shared) {
    let unsubmitted = k::sq_tail().wrapping_sub(k::sq_head());
    let available = (shared.submissions_len.saturating_sub(unsubmitted)) as usize;
    let list: &mut Vec<std::task::Waker> = unsafe { &mut *shared.blocked_futures.data_ptr() };
    // (at most one waiter is registered in the harness below, so the order
    // among waiters does not arise; pop() avoids Vec::remove's shifting loop)
    if available >= 1 {
        if let Some(w) = list.pop() {
            w.wake();
        }
    }
}

/// Another thread's Ring::poll running inside the window: its kernel entry
/// submits everything that was queued (so the queue has room again) and then
/// offers that room to the waiters registered SO FAR.
fn other_thread_polls(kind: u32) {
    unsafe {
        if kind != crate::io_uring::verif_hooks::YIELD_LOCK || !RACE_ARMED.v {
            return;
        }
        RACE_YIELDS.v += 1;
        if !RACE_FIRED.v && RACE_YIELDS.v == RACE_AT.v {
            RACE_FIRED.v = true;
            let mem = k::sq_mem();
            mem.head.store(k::sq_tail(), std::sync::atomic::Ordering::Relaxed);
            wake_blocked_model(&*RACE_SHARED.v);
        }
    }
}

sm_stubs! {

//@ prop: C03
//@ tier: quick
//@ what: no lost wake-up for freed submission-queue space across the window between the failed add (queue full) and the registration of the waiter: another thread's Ring::poll makes room at the LAST lock boundary of the poll -- after the fullness check failed, before the waiter is on the list. When poll returns Pending its waker must have been invoked (so the executor re-polls and finds room): a registered waiter is never left sleeping next to free slots that nobody will offer again
//@ bound: ring of 2, full; one poll; the other thread's poll (kernel consumes everything + offers the room to the waiters registered so far) fires at the 2nd and last lock boundary of the poll (1st: the submission lock inside add, 2nd: the waiter-list lock)
//@ encodes: io_uring::op::poll_inner (NotStarted arm, QueueFull); io_uring::sq::Submissions::{add,wait_for_submission}
//@ stubs: io_uring::Shared::wake_blocked_futures -> specification-level model (the real function: sm_wake_blocked*); crate::lock -> yield + try_lock model; Waker -> direct calls; <core::io::CustomOwner as Drop>::drop -> no-op
//@ assumes: thread interleaving at lock granularity (DESIGN 2.3)
#[kani::stub(crate::io_uring::Shared::wake_blocked_futures, wake_blocked_model)]
fn sm_queue_full_registration_race() {
    queue_full_race(2);
    kani::cover!(unsafe { RACE_FIRED.v }, "room made inside the window");
}

//@ prop: C03
//@ tier: quick
//@ what: the same with the other thread's poll firing one lock boundary earlier (at the submission lock, before the fullness check under it): the operation is submitted after all; and with no interference it waits for a slot without being woken
//@ bound: ring of 2, full; interference at the 1st lock boundary or never (symbolic)
//@ encodes: io_uring::op::poll_inner; io_uring::sq::Submissions::{add,wait_for_submission}
//@ stubs: as sm_queue_full_registration_race
#[kani::stub(crate::io_uring::Shared::wake_blocked_futures, wake_blocked_model)]
fn sm_queue_full_race_before_check() {
    let at = if kani::any() { 1 } else { 99 };
    queue_full_race(at);
    kani::cover!(at == 1);
    kani::cover!(at == 99);
}

}

fn queue_full_race(at: u32) {
    let sq = ring(0);
    let mut t = k::base_table();
    t.yield_point = Some(other_thread_polls);
    k::install(t);
    unsafe {
        RACE_SHARED.v = sq.submissions().shared();
        RACE_FIRED.v = false;
        RACE_YIELDS.v = 0;
        RACE_AT.v = at;
        RACE_ARMED.v = true;
    }
    let mut st: State<Singleshot, Res, u32> = State::new(new_res(), 4);
    let w = k::waker(2);
    let mut ctx = Context::from_waker(&w);
    let r = poll(&sq, &mut st, &mut ctx, fill, map_ok, fallback);
    unsafe { RACE_ARMED.v = false };
    assert!(r.is_pending());
    let fired = unsafe { RACE_FIRED.v };
    let submitted = ops::state_tag(&st) == ops::Tag::Running;
    let room = k::sq_tail().wrapping_sub(k::sq_head()) < 2;
    if !submitted && room {
        assert!(k::wakes(2) >= 1, "room is available and nobody will offer it again: the waiter must have been woken");
    }
    if !fired {
        assert!(!submitted && !room && k::wakes(2) == 0, "no interference: waits for a slot");
    }
    if at == 99 {
        assert!(!fired);
    }
    std::mem::forget(r);
    std::mem::forget(st);
    std::mem::forget(sq);
}
