//@@ attach: src/io_uring/cq.rs
//! C05: completions consumed exactly once, in order, wrap-safe; bookkeeping
//! completions never dereferenced.
#![allow(dead_code, unused_imports, static_mut_refs, clippy::all, clippy::pedantic)]

use std::ptr::NonNull;
use std::sync::atomic::Ordering;
use std::time::Duration;

use super::{Completion, Completions};
use crate::io_uring::op::verif_opsup as ops;
use crate::io_uring::verif_kernel as k;
use crate::io_uring::{Submissions, libc};

/// Not the address of any object: dereferencing it is a CBMC pointer failure.
const POISON: u64 = 0xdead_0000_0000_0008;

/// A completion entry as the kernel would post it (for harnesses outside `io_uring`).
pub(crate) fn completion(user_data: u64, res: i32, flags: u32) -> Completion {
    let mut c: Completion = Completion(unsafe { std::mem::zeroed() });
    c.0.user_data = user_data;
    c.0.res = res;
    c.0.flags = flags;
    c
}

pub(crate) fn build_completions(len: u32) -> Completions {
    let mem = k::cq_mem();
    Completions {
        ring: NonNull::from(&mut *mem).cast(),
        ring_len: 16,
        entries_head: NonNull::from(&mem.head),
        entries_tail: NonNull::from(&mem.tail),
        entries: NonNull::from(&mut mem.cqes[0]).cast(),
        entries_len: len,
    }
}

static mut CQ_HEAD0: crate::verif_stubs::V<u32> = crate::verif_stubs::V::new(0);
static mut HEAD_MOVED_DURING_PROCESSING: crate::verif_stubs::V<bool> = crate::verif_stubs::V::new(false);

/// yield hook: every lock taken while completions are processed happens
/// before the new head is published (slots are handed back only after reading).
fn observe_head(_kind: u32) {
    unsafe {
        if k::cq_mem().head.load(Ordering::Relaxed) != CQ_HEAD0.v {
            HEAD_MOVED_DURING_PROCESSING.v = true;
        }
    }
}

static mut ENTER_POST: crate::verif_stubs::V<u32> = crate::verif_stubs::V::new(0);
static mut ENTER_CALLS: crate::verif_stubs::V<u32> = crate::verif_stubs::V::new(0);
static mut ENTER_ERRNO: crate::verif_stubs::V<i32> = crate::verif_stubs::V::new(0);

/// Model of io_uring_enter(GETEVENTS), success: publishes the ENTER_POST
/// completions the harness prepared by advancing the CQ tail. Returns the
/// constant 0 so that a10's error handling folds away in symbolic execution.
unsafe fn enter_posts(
    _fd: libc::c_int,
    _to_submit: libc::c_uint,
    _min_complete: libc::c_uint,
    _flags: libc::c_uint,
    _arg: *const libc::c_void,
    _size: usize,
) -> libc::c_int {
    unsafe {
        ENTER_CALLS.v += 1;
        let mem = k::cq_mem();
        let t = mem.tail.load(Ordering::Relaxed);
        mem.tail.store(t.wrapping_add(ENTER_POST.v), Ordering::Relaxed);
    }
    0
}

/// Kani stub for `Shared::enter` (cost cut: the real function always runs
/// `wake_blocked_futures`, 1 M+ SSA steps of Vec<Waker> code, which is decided
/// on its own in C03). Same kernel model as the `enter_posts` hook, which is
/// what a native replay goes through.
fn enter_stub(
    _s: &crate::io_uring::Shared,
    _min_complete: libc::c_uint,
    _flags: libc::c_uint,
    _timeout: Option<Duration>,
) -> std::io::Result<u32> {
    unsafe { enter_posts(0, 0, 0, 0, std::ptr::null(), 0) };
    Ok(0)
}

/// Model of a failing io_uring_enter: -1 with errno ENTER_ERRNO.
unsafe fn enter_fails(
    _fd: libc::c_int,
    _to_submit: libc::c_uint,
    _min_complete: libc::c_uint,
    _flags: libc::c_uint,
    _arg: *const libc::c_void,
    _size: usize,
) -> libc::c_int {
    unsafe {
        ENTER_CALLS.v += 1;
        *libc::__errno_location() = ENTER_ERRNO.v;
    }
    -1
}

fn ring(cq_len: u32, head: u32, tail: u32) -> (Submissions, Completions) {
    let mem = k::cq_mem();
    mem.head.store(head, Ordering::Relaxed);
    mem.tail.store(tail, Ordering::Relaxed);
    unsafe {
        CQ_HEAD0.v = head;
        HEAD_MOVED_DURING_PROCESSING.v = false;
        ENTER_CALLS.v = 0;
    }
    let mut table = k::base_table();
    table.yield_point = Some(observe_head);
    table.io_uring_enter2 = Some(enter_posts);
    k::install(table);
    k::sq_set(0, 0);
    (Submissions::new(k::build_shared(2, false, false)), build_completions(cq_len))
}

/// Point every CQ slot at the decoy (unrolled: no harness loop, see fill note).
fn decoy_all(ud: u64) {
    let mem = k::cq_mem();
    macro_rules! slot { ($($i:expr),*) => { $( mem.cqes[$i].user_data = ud; mem.cqes[$i].res = -7; mem.cqes[$i].flags = 0; )* } }
    slot!(0, 1, 2, 3, 4, 5, 6, 7);
}

/// Global order stamp written by the wakers' wake function (see kernel.rs).
fn stamp_of(id: usize) -> u32 {
    k::wake_stamp(id)
}

/// `Completions::poll` over the published range [head, head+n): the j-th
/// published entry (ring slot (head+j) & mask -- a symbolic index) is the final
/// completion of its own single-shot operation P_j (result 100+j); every other
/// slot holds the address of a decoy operation. Decides: each published
/// completion reaches its operation exactly once, in publication order;
/// unpublished slots are never interpreted; the head follows the tail and is
/// stored after the last read.
macro_rules! poll_order {
    ($len:expr, $head:expr, $maxn:expr, [$($j:expr),*]) => {{
        let len: u32 = $len;
        let head: u32 = $head;
        let n: u32 = kani::any();
        kani::assume(n >= 1 && n <= $maxn && n <= len);
        let tail = head.wrapping_add(n);
        let ops_ = [$( ops::single(false, (0, 0), Some(k::waker($j))) ),*];
        // If an unpublished slot is interpreted the decoy changes state. (A
        // poison *constant* mixed with pointer values in one symbolic word
        // makes CBMC fall back to a full memory case split: out of memory.)
        let trap = ops::single(false, (0, 0), None);
        let mem = k::cq_mem();
        decoy_all(ops::user_data_single(&trap));
        $(
            if $j < n {
                let idx = (head.wrapping_add($j) & (len - 1)) as usize;
                mem.cqes[idx].user_data = ops::user_data_single(&ops_[$j]);
                mem.cqes[idx].res = 100 + $j;
            }
        )*
        let (sq, mut cq) = ring(len, head, tail);
        let res = cq.poll(sq.shared(), Some(Duration::ZERO));
        assert!(res.is_ok());
        assert!(unsafe { ENTER_CALLS.v } == 0, "completions available: no kernel entry");
        assert!(mem.head.load(Ordering::Relaxed) == tail, "published head == consumed tail");
        assert!(!unsafe { HEAD_MOVED_DURING_PROCESSING.v }, "head published only after the last read");
        $(
            if $j < n {
                assert!(ops::tag(&ops_[$j]) == ops::Tag::Done, "published completion delivered");
                assert!(ops::single_result(&ops_[$j]) == Some((100 + $j, 0)), "with its own result");
                assert!(k::wakes($j) == 1, "exactly once");
                assert!(stamp_of($j) == $j + 1, "in publication order");
            } else {
                assert!(ops::tag(&ops_[$j]) == ops::Tag::Running && k::wakes($j) == 0);
            }
        )*
        assert!(ops::tag(&trap) == ops::Tag::Running && ops::single_result(&trap) == Some((0, 0)),
            "unpublished slot not interpreted");
        kani::cover!(n == $maxn);
        kani::cover!(n == 1);
        std::mem::forget(cq);
        std::mem::forget(sq);
        std::mem::forget(ops_);
        std::mem::forget(trap);
    }};
}

// The ring arithmetic of `poll` (index = head & mask, head += 1, loop until
// tail) does not depend on what the entries contain, and it is decided for
// EVERY 32-bit head by c05_cq_poll_bookkeeping_mix. Delivery to operations is
// decided here for concrete heads on both sides of the 2^32 and 2^31
// boundaries and both slot parities, with the batch length symbolic: a fully
// symbolic head makes every slot's user_data a symbolic pointer and CBMC runs
// out of memory (> 30 GB) in propositional reduction.
macro_rules! order_harness {
    ($name:ident, $len:expr, $head:expr, $maxn:expr, [$($j:expr),*], $unwind:expr) => {
        #[kani::proof]
        #[kani::unwind($unwind)]
        #[kani::stub(crate::io_uring::Shared::enter, enter_stub)]
        #[kani::stub(<core::io::CustomOwner as core::ops::Drop>::drop, crate::verif_stubs::custom_owner_drop_noop)]
        #[kani::stub(crate::lock, crate::verif_stubs::lock_model)]
        fn $name() {
            unsafe { ENTER_POST.v = 0 };
            poll_order!($len, $head, $maxn, [$($j),*]);
        }
    };
}

//@ prop: C05
//@ tier: quick
//@ what: Completions::poll over a published range [head, head+n), head = 2^32-1 (range spans the counter wrap): each published completion reaches its own operation exactly once and in publication order, unpublished slots (decoys) are never interpreted, no kernel entry, new head == old tail, stored after the last read
//@ bound: CQ size 2; head = u32::MAX; n symbolic in 1..=2; one single-shot operation per published entry
//@ encodes: io_uring::cq::Completions::poll; io_uring::cq::Completion::process; io_uring::op::Shared::update
//@ stubs: Shared::enter -> model (never called on this path); <core::io::CustomOwner as Drop>::drop -> no-op; crate::lock -> try_lock model
//@ assumes: kernel publishes at most `size` entries ahead of the head (NODROP ring, io_uring contract)
order_harness!(c05_cq_poll_order_hmax, 2, u32::MAX, 2, [0, 1], 3);

//@ prop: C05
//@ tier: quick
//@ what: as c05_cq_poll_order_hmax with head = 0 (fresh ring, even slot first)
//@ bound: CQ size 2; head = 0; n symbolic in 1..=2
//@ encodes: io_uring::cq::Completions::poll; io_uring::cq::Completion::process; io_uring::op::Shared::update
//@ stubs: Shared::enter -> model; <core::io::CustomOwner as Drop>::drop -> no-op; crate::lock -> try_lock model
order_harness!(c05_cq_poll_order_h0, 2, 0, 2, [0, 1], 3);

//@ prop: C05
//@ tier: thorough
//@ what: as c05_cq_poll_order_hmax with head = 2^31-1 (signed boundary)
//@ bound: CQ size 2; head = 0x7fff_ffff; n symbolic in 1..=2
//@ encodes: io_uring::cq::Completions::poll; io_uring::cq::Completion::process; io_uring::op::Shared::update
//@ stubs: Shared::enter -> model; <core::io::CustomOwner as Drop>::drop -> no-op; crate::lock -> try_lock model
//@ timeout: 1700
order_harness!(c05_cq_poll_order_h31, 2, 0x7fff_ffff, 2, [0, 1], 3);

//@ prop: C05
//@ tier: thorough
//@ what: as c05_cq_poll_order_hmax with a 4-entry queue (slot index 3 then 0: the index wraps together with the counter)
//@ bound: CQ size 4; head = 0xffff_ffff; n symbolic in 1..=2 (3 entries with CQ 4 ran out of memory)
//@ encodes: io_uring::cq::Completions::poll; io_uring::cq::Completion::process; io_uring::op::Shared::update
//@ stubs: Shared::enter -> model; <core::io::CustomOwner as Drop>::drop -> no-op; crate::lock -> try_lock model
//@ timeout: 1700
order_harness!(c05_cq_poll_order_hwrap4, 4, 0xffff_ffff, 2, [0, 1], 3);

/// Ring of bookkeeping / padding completions only.
fn poll_mixed(len: u32, maxn: u32) {
    let head: u32 = kani::any();
    let n: u32 = kani::any();
    kani::assume(n >= 1 && n <= maxn && n <= len);
    let tail = head.wrapping_add(n);
    let mem = k::cq_mem();
    macro_rules! slot { ($($i:expr),*) => { $(
        {
            let published = (($i as u32).wrapping_sub(head) & (len - 1)) < n;
            let kind: u8 = kani::any();
            kani::assume(kind < 5);
            let c = &mut mem.cqes[$i];
            c.res = kani::any();
            if !published || kind == 4 {
                // unpublished garbage, or F_SKIP padding: poison address
                c.user_data = POISON;
                c.flags = if published { libc::IORING_CQE_F_SKIP } else { 0 };
            } else {
                c.user_data = kind as u64;
                c.flags = 0;
            }
        }
    )* } }
    slot!(0, 1, 2, 3, 4, 5, 6, 7);
    unsafe { ENTER_POST.v = 0 };
    let (sq, mut cq) = ring(len, head, tail);
    let res = cq.poll(sq.shared(), Some(Duration::ZERO));
    assert!(res.is_ok());
    assert!(unsafe { ENTER_CALLS.v } == 0, "completions available: no kernel entry");
    assert!(mem.head.load(Ordering::Relaxed) == tail, "published head == consumed tail");
    kani::cover!(tail < head, "batch spans the u32 wrap of the counters");
    kani::cover!(n == maxn);
    std::mem::forget(cq);
    std::mem::forget(sq);
}

//@ prop: C05
//@ tier: quick
//@ what: Completions::poll over batches made of bookkeeping completions (user_data 0..=3, any result) and F_SKIP padding carrying a poison address, unpublished slots poisoned: nothing is dereferenced (CBMC pointer checks), the head follows the tail
//@ bound: CQ size in {2,4,8}; head any u32; batch 1..=4
//@ encodes: io_uring::cq::Completions::poll; io_uring::cq::Completion::process
//@ stubs: Shared::enter -> model; <core::io::CustomOwner as Drop>::drop -> no-op; crate::lock -> try_lock model
#[kani::proof]
#[kani::unwind(5)]
#[kani::stub(crate::io_uring::Shared::enter, enter_stub)]
#[kani::stub(<core::io::CustomOwner as core::ops::Drop>::drop, crate::verif_stubs::custom_owner_drop_noop)]
#[kani::stub(crate::lock, crate::verif_stubs::lock_model)]
fn c05_cq_poll_bookkeeping_mix() {
    let sel: u8 = kani::any();
    kani::assume(sel < 3);
    poll_mixed(2u32 << sel, 4);
}

//@ prop: C05
//@ tier: quick
//@ what: Completions::poll on an EMPTY queue (head == tail = 2^32-1): enters the kernel exactly once; whatever the kernel then publishes (0..=2 completions, also across the wrap) is delivered once, in order, and the head follows
//@ bound: CQ size 2; head = tail = u32::MAX; kernel posts 0..=2 entries (symbolic)
//@ encodes: io_uring::cq::Completions::poll; io_uring::cq::Completion::process; PollingState::set_polling
//@ stubs: Shared::enter -> model kernel posting the prepared completions (the real enter + failing kernel: c05_cq_poll_enter_fails; enter's own behaviour: C03); <core::io::CustomOwner as Drop>::drop -> no-op; crate::lock -> try_lock model
#[kani::proof]
#[kani::unwind(3)]
#[kani::stub(crate::io_uring::Shared::enter, enter_stub)]
#[kani::stub(<core::io::CustomOwner as core::ops::Drop>::drop, crate::verif_stubs::custom_owner_drop_noop)]
#[kani::stub(crate::lock, crate::verif_stubs::lock_model)]
fn c05_cq_poll_empty_enters() {
    let len = 2u32;
    // concrete head (see the note at order_harness!): the posted batch wraps
    let head: u32 = u32::MAX;
    let post: u32 = kani::any();
    kani::assume(post <= 2);
    let ops_ = [ops::single(false, (0, 0), Some(k::waker(0))), ops::single(false, (0, 0), Some(k::waker(1)))];
    let trap = ops::single(false, (0, 0), None);
    let mem = k::cq_mem();
    mem.cqes[0].user_data = ops::user_data_single(&trap);
    mem.cqes[1].user_data = ops::user_data_single(&trap);
    mem.cqes[0].res = -7;
    mem.cqes[1].res = -7;
    mem.cqes[0].flags = 0;
    mem.cqes[1].flags = 0;
    if post >= 1 {
        let idx = (head & 1) as usize;
        mem.cqes[idx].user_data = ops::user_data_single(&ops_[0]);
        mem.cqes[idx].res = 100;
    }
    if post >= 2 {
        let idx = (head.wrapping_add(1) & 1) as usize;
        mem.cqes[idx].user_data = ops::user_data_single(&ops_[1]);
        mem.cqes[idx].res = 101;
    }
    unsafe { ENTER_POST.v = post };
    let (sq, mut cq) = ring(len, head, head);
    let res = cq.poll(sq.shared(), None);
    assert!(unsafe { ENTER_CALLS.v } == 1, "empty queue: exactly one io_uring_enter");
    assert!(res.is_ok());
    assert!(mem.head.load(Ordering::Relaxed) == head.wrapping_add(post), "published head == consumed tail");
    assert!(k::wakes(0) == (post >= 1) as u32 && k::wakes(1) == (post >= 2) as u32, "delivered exactly once");
    if post >= 1 {
        assert!(ops::single_result(&ops_[0]) == Some((100, 0)) && stamp_of(0) == 1, "in publication order");
    }
    if post == 2 {
        assert!(ops::single_result(&ops_[1]) == Some((101, 0)) && stamp_of(1) == 2, "in publication order");
    }
    assert!(ops::tag(&trap) == ops::Tag::Running && ops::single_result(&trap) == Some((0, 0)),
        "unpublished slot not interpreted");
    std::mem::forget(trap);
    kani::cover!(post == 2, "posted batch wraps");
    kani::cover!(post == 0);
    kani::cover!(post == 1);
    std::mem::forget(cq);
    std::mem::forget(sq);
    std::mem::forget(ops_);
}

//@ prop: C05
//@ tier: quick
//@ what: Completions::poll on an empty queue when io_uring_enter fails (real Shared::enter): ETIME/EINTR are not errors (Ok, nothing consumed); any other errno is returned and nothing is consumed; exactly one kernel entry
//@ bound: CQ size 2; head any u32; errno in {ETIME, EINTR, EBADF, ENOMEM}
//@ encodes: io_uring::cq::Completions::poll; io_uring::Shared::enter
#[kani::proof]
#[kani::unwind(2)]
fn c05_cq_poll_enter_fails() {
    let head: u32 = kani::any();
    let outcome: u8 = kani::any();
    kani::assume(outcome < 4);
    let (sq, mut cq) = ring(2, head, head);
    unsafe {
        ENTER_ERRNO.v = match outcome {
            0 => libc::ETIME,
            1 => libc::EINTR,
            2 => libc::EBADF,
            _ => libc::ENOMEM,
        };
    }
    let mut table = k::base_table();
    table.io_uring_enter2 = Some(enter_fails);
    k::install(table);
    let res = cq.poll(sq.shared(), None);
    assert!(unsafe { ENTER_CALLS.v } == 1, "exactly one io_uring_enter");
    assert!(res.is_ok() == (outcome < 2), "timeout/interrupt is not an error, everything else is");
    assert!(k::cq_mem().head.load(Ordering::Relaxed) == head, "nothing consumed");
    kani::cover!(outcome == 0);
    kani::cover!(outcome == 3);
    std::mem::forget(res);
    std::mem::forget(cq);
    std::mem::forget(sq);
}

//@ prop: C05 C06
//@ tier: quick
//@ what: Completion::process on a bookkeeping or padding completion (user_data 0..=3 with ANY result and flags, or F_SKIP with ANY user_data) forms no pointer and touches no operation
//@ bound: one completion; user_data/res/flags fully symbolic within the bookkeeping classes
//@ encodes: io_uring::cq::Completion::process
#[kani::proof]
#[kani::unwind(4)]
fn c05_bookkeeping_ignored() {
    let mut c: Completion = Completion(unsafe { std::mem::zeroed() });
    c.0.res = kani::any();
    // The user_data / flag classes are chosen by a symbolic selector but are
    // concrete per class (except the padding class, whose user_data is fully
    // symbolic): CBMC then folds the early returns instead of symbolically
    // executing a dereference of an arbitrary address (172 s -> seconds).
    let sel: u8 = kani::any();
    kani::assume(sel < 6);
    let fl: u32 = kani::any();
    match sel {
        0 => { c.0.user_data = 0; c.0.flags = fl & !libc::IORING_CQE_F_SKIP; }
        1 => { c.0.user_data = 1; c.0.flags = fl & !libc::IORING_CQE_F_SKIP; }
        2 => { c.0.user_data = 2; c.0.flags = fl & !libc::IORING_CQE_F_SKIP; }
        3 => { c.0.user_data = 3; c.0.flags = fl & !libc::IORING_CQE_F_SKIP; }
        4 => { c.0.user_data = kani::any(); c.0.flags = libc::IORING_CQE_F_SKIP; }
        _ => { c.0.user_data = kani::any(); c.0.flags = libc::IORING_CQE_F_SKIP | libc::IORING_CQE_F_MORE | libc::IORING_CQE_F_BUFFER; }
    }
    // Any dereference of user_data would be a pointer failure: no object
    // lives at addresses 0..=3 and a symbolic u64 is not a valid pointer.
    unsafe { c.process() };
    kani::cover!(sel == 2 && c.0.res == -libc::ENOENT);
    kani::cover!(sel == 2 && c.0.res == 0);
    kani::cover!(sel == 3);
    kani::cover!(sel == 4 && c.0.user_data > 3);
}

/// `Completion::process` is private to `cq`; this lets harnesses elsewhere
/// deliver a completion the way `Completions::poll` does.
pub(crate) unsafe fn process(c: &Completion) {
    unsafe { c.process() }
}

// ===========================================================================
// C11 glue: how Completions::poll uses the polling-state handshake.
// ===========================================================================

static mut C11_SHARED: crate::verif_stubs::V<*const crate::io_uring::Shared> = crate::verif_stubs::V::new(std::ptr::null());
static mut C11_STATE_IN_KERNEL: crate::verif_stubs::V<u8> = crate::verif_stubs::V::new(0xff);
static mut C11_TS_SEC: crate::verif_stubs::V<i64> = crate::verif_stubs::V::new(-1);
static mut C11_TS_NSEC: crate::verif_stubs::V<i64> = crate::verif_stubs::V::new(-1);
static mut C11_HAS_TS: crate::verif_stubs::V<bool> = crate::verif_stubs::V::new(false);
static mut C11_WAKE_IN_KERNEL: crate::verif_stubs::V<bool> = crate::verif_stubs::V::new(false);
static mut C11_WAKE_TOLD_TO_POST: crate::verif_stubs::V<bool> = crate::verif_stubs::V::new(false);
static mut C11_ENTER_FAILS: crate::verif_stubs::V<bool> = crate::verif_stubs::V::new(false);

/// io_uring_enter(GETEVENTS) as the poll's wait: records the handshake word as
/// a concurrent waker would find it while the poller is in the kernel, the
/// timeout handed to the kernel, and optionally runs a concurrent wake().
unsafe fn c11_enter(_fd: libc::c_int, _to_submit: libc::c_uint, _min: libc::c_uint, flags: libc::c_uint, arg: *const libc::c_void, _size: usize) -> libc::c_int {
    unsafe {
        ENTER_CALLS.v += 1;
        let shared = &*C11_SHARED.v;
        C11_STATE_IN_KERNEL.v = shared.polling.0.load(Ordering::Relaxed);
        assert!(flags & libc::IORING_ENTER_EXT_ARG != 0 && flags & libc::IORING_ENTER_GETEVENTS != 0);
        let a = &*arg.cast::<libc::io_uring_getevents_arg>();
        C11_HAS_TS.v = a.ts != 0;
        if a.ts != 0 {
            let ts = &*(a.ts as *const libc::timespec);
            C11_TS_SEC.v = ts.tv_sec;
            C11_TS_NSEC.v = ts.tv_nsec;
        }
        if C11_WAKE_IN_KERNEL.v {
            C11_WAKE_TOLD_TO_POST.v = shared.polling.wake();
        }
        if C11_ENTER_FAILS.v {
            *libc::__errno_location() = libc::EBADF;
            return -1;
        }
    }
    0
}

fn noop_wake_blocked_c11(_s: &crate::io_uring::Shared) {}

//@ prop: C11
//@ tier: quick
//@ what: how the real Completions::poll takes part in the wake-up handshake when the completion queue is empty: (1) while the poller is inside io_uring_enter the shared word says "polling", so a wake() arriving then is told to post the ring message (never skipped); (2) a wake() that happened before the poll started makes this poll pass a ZERO timeout to the kernel whatever timeout the caller gave (None included), i.e. it cannot block; without a prior wake the caller's timeout is passed unchanged; (3) when the poll returns -- also when io_uring_enter failed -- the word is back to "not polling, not awoken", so the next wake() is not skipped as "already awoken"
//@ bound: empty CQ; caller timeout in {None, 0, 3.5 s}; wake before the poll or not, wake during the kernel wait or not, enter failing or not (all symbolic)
//@ encodes: io_uring::cq::Completions::poll; io_uring::Shared::enter; PollingState::{set_polling,wake}
//@ stubs: io_uring::Shared::wake_blocked_futures -> no-op (C03); <core::io::CustomOwner as Drop>::drop -> no-op
#[kani::proof]
#[kani::unwind(2)]
#[kani::stub(crate::io_uring::Shared::wake_blocked_futures, noop_wake_blocked_c11)]
#[kani::stub(<core::io::CustomOwner as core::ops::Drop>::drop, crate::verif_stubs::custom_owner_drop_noop)]
fn c11_poll_handshake() {
    let mut table = k::base_table();
    table.io_uring_enter2 = Some(c11_enter);
    k::install(table);
    k::sq_set(0, 0);
    let mem = k::cq_mem();
    mem.head.store(5, Ordering::Relaxed);
    mem.tail.store(5, Ordering::Relaxed);
    let shared = k::build_shared(2, false, false);
    let mut cq = build_completions(2);
    let woken_before: bool = kani::any();
    let wake_during: bool = kani::any();
    let fails: bool = kani::any();
    let tsel: u8 = kani::any();
    kani::assume(tsel < 3);
    let timeout = match tsel {
        0 => None,
        1 => Some(Duration::ZERO),
        _ => Some(Duration::new(3, 500_000_000)),
    };
    unsafe {
        ENTER_CALLS.v = 0;
        C11_SHARED.v = &shared;
        C11_STATE_IN_KERNEL.v = 0xff;
        C11_HAS_TS.v = false;
        C11_WAKE_IN_KERNEL.v = wake_during;
        C11_WAKE_TOLD_TO_POST.v = false;
        C11_ENTER_FAILS.v = fails;
    }
    if woken_before {
        let told = shared.polling.wake();
        assert!(!told, "no poll in progress: nothing to post (the flag alone carries the wake-up)");
    }
    let r = cq.poll(&shared, timeout);
    assert!(r.is_ok() == !fails);
    unsafe {
        assert!(ENTER_CALLS.v == 1, "empty queue: one kernel wait");
        assert!(C11_STATE_IN_KERNEL.v & 0b01 != 0, "announced as polling while waiting in the kernel");
        if wake_during {
            assert!(C11_WAKE_TOLD_TO_POST.v, "a wake() during the kernel wait is told to post the ring message");
        }
        if woken_before {
            assert!(C11_HAS_TS.v && C11_TS_SEC.v == 0 && C11_TS_NSEC.v == 0, "woken before the poll: zero timeout, the poll cannot block");
        } else {
            match tsel {
                0 => assert!(!C11_HAS_TS.v, "no timeout given: none passed"),
                1 => assert!(C11_HAS_TS.v && C11_TS_SEC.v == 0 && C11_TS_NSEC.v == 0),
                _ => assert!(C11_HAS_TS.v && C11_TS_SEC.v == 3 && C11_TS_NSEC.v == 500_000_000, "caller's timeout passed unchanged"),
            }
        }
    }
    assert!(shared.polling.0.load(Ordering::Relaxed) == 0, "after the poll: not polling, not awoken");
    // hence the next wake() is neither skipped nor asked to post
    kani::cover!(woken_before && tsel == 0 && !fails);
    kani::cover!(wake_during && !woken_before && tsel == 2);
    kani::cover!(fails && wake_during);
    std::mem::forget(r);
    std::mem::forget(cq);
    std::mem::forget(shared);
}

//@ prop: C11
//@ tier: quick
//@ what: a wake() that happened while no poll was waiting must not be lost by a poll that finds completions already queued (no kernel wait): after that poll the "awoken" flag is still set -- so the NEXT poll, finding the queue empty, passes a zero timeout -- or the poll itself consumed it by entering the kernel with a zero timeout; decided through two consecutive real polls
//@ bound: CQ with one bookkeeping completion (wake message) queued, then empty; caller timeout None for both polls; wake before the first poll or not (symbolic)
//@ encodes: io_uring::cq::Completions::poll (fast path and waiting path); PollingState::{set_polling,wake}; io_uring::Shared::enter
//@ stubs: io_uring::Shared::wake_blocked_futures -> no-op (C03); <core::io::CustomOwner as Drop>::drop -> no-op
#[kani::proof]
#[kani::unwind(3)]
#[kani::stub(crate::io_uring::Shared::wake_blocked_futures, noop_wake_blocked_c11)]
#[kani::stub(<core::io::CustomOwner as core::ops::Drop>::drop, crate::verif_stubs::custom_owner_drop_noop)]
fn c11_wake_survives_fast_path_poll() {
    let mut table = k::base_table();
    table.io_uring_enter2 = Some(c11_enter);
    k::install(table);
    k::sq_set(0, 0);
    let mem = k::cq_mem();
    mem.head.store(6, Ordering::Relaxed);
    mem.tail.store(7, Ordering::Relaxed);
    // one queued bookkeeping completion: an earlier wake message (user_data 1)
    mem.cqes[0].user_data = 1;
    mem.cqes[0].res = 0;
    mem.cqes[0].flags = 0;
    let shared = k::build_shared(2, false, false);
    let mut cq = build_completions(2);
    let woken_before: bool = kani::any();
    unsafe {
        ENTER_CALLS.v = 0;
        C11_SHARED.v = &shared;
        C11_HAS_TS.v = false;
        C11_WAKE_IN_KERNEL.v = false;
        C11_ENTER_FAILS.v = false;
    }
    if woken_before {
        let _ = shared.polling.wake();
    }
    // first poll: completions available, no kernel wait
    let r1 = cq.poll(&shared, None);
    assert!(r1.is_ok());
    assert!(mem.head.load(Ordering::Relaxed) == 7, "the queued completion was consumed");
    let waited_in_first = unsafe { ENTER_CALLS.v } == 1;
    // second poll: queue empty -> it waits in the kernel
    let r2 = cq.poll(&shared, None);
    assert!(r2.is_ok());
    unsafe {
        assert!(ENTER_CALLS.v >= 1, "empty queue: a kernel wait");
        if woken_before && !waited_in_first {
            assert!(C11_HAS_TS.v && C11_TS_SEC.v == 0 && C11_TS_NSEC.v == 0, "the earlier wake() makes the next waiting poll return promptly (zero timeout)");
        }
        if !woken_before {
            assert!(!C11_HAS_TS.v, "no wake, no timeout given: an indefinite wait is what was asked for");
        }
    }
    kani::cover!(woken_before && !waited_in_first);
    kani::cover!(!woken_before);
    std::mem::forget((r1, r2));
    std::mem::forget(cq);
    std::mem::forget(shared);
}
