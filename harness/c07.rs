//@@ attach: src/io_uring/fd.rs
//! C07: each descriptor owned by an AsyncFd is closed exactly once, the right
//! way; descriptor results are wrapped exactly once with the requested kind.
#![allow(dead_code, unused_imports, static_mut_refs, clippy::all, clippy::pedantic)]

use std::mem::ManuallyDrop;

use super::{ToDirectOp, ToFdOp};
use crate::fd::{AsyncFd, Kind};
use crate::io_uring::op::{FdIter, FdOp, Op, OpReturn, verif_opsup as ops};
use crate::io_uring::verif_hooks::Table;
use crate::io_uring::verif_kernel as k;
use crate::io_uring::{libc, net};
use crate::SubmissionQueue;

const OP_CLOSE: u8 = 19;

static mut REG_CALLS: crate::verif_stubs::V<u32> = crate::verif_stubs::V::new(0);
static mut REG_OP: crate::verif_stubs::V<u32> = crate::verif_stubs::V::new(0);
static mut REG_OFFSET: crate::verif_stubs::V<u32> = crate::verif_stubs::V::new(0);
static mut REG_FD0: crate::verif_stubs::V<i32> = crate::verif_stubs::V::new(0);
static mut REG_NR: crate::verif_stubs::V<u32> = crate::verif_stubs::V::new(0);

unsafe fn model_register(_fd: libc::c_int, op: libc::c_uint, arg: *const libc::c_void, nr: libc::c_uint) -> libc::c_int {
    unsafe {
        REG_CALLS.v += 1;
        REG_OP.v = op;
        REG_NR.v = nr;
        if op == libc::IORING_REGISTER_FILES_UPDATE {
            let u = &*arg.cast::<libc::io_uring_files_update>();
            REG_OFFSET.v = u.offset;
            REG_FD0.v = *(u.fds as *const i32);
        }
    }
    0
}

fn ring(free: u32) -> SubmissionQueue {
    let mut t = k::base_table();
    t.io_uring_register = Some(model_register);
    k::install(t);
    unsafe {
        REG_CALLS.v = 0;
        k::CLOSES.v = 0;
        k::LAST_CLOSED.v = -1;
    }
    k::sq_set(0, 2 - free);
    SubmissionQueue(crate::io_uring::sq::verif_c04::submissions_in_place(2, false, false))
}

macro_rules! c07_stubs {
    ($($item:item)*) => { $(
        #[kani::proof]
        #[kani::unwind(3)]
        #[kani::stub(crate::lock, crate::verif_stubs::lock_model)]
        #[kani::stub(<core::io::CustomOwner as core::ops::Drop>::drop, crate::verif_stubs::custom_owner_drop_noop)]
        $item
    )* };
}

c07_stubs! {

//@ prop: C07 C12
//@ tier: quick
//@ what: dropping an AsyncFd, for every descriptor number and both kinds, with room in the queue or not: with room exactly one no-success-event CLOSE (regular: fd; direct: file_index = fd+1) tagged as background close and NO synchronous close; without room exactly one synchronous close -- close(fd) for a regular descriptor, FILES_UPDATE{offset = fd, fds = [-1]} for a direct one -- and no submission; never both, never the other kind's method
//@ bound: fd any value in 0..2^31-1 (direct: index < 2^31-1); kind and queue fullness symbolic
//@ encodes: <AsyncFd as Drop>::drop; io_uring::io::close_file_fd; io_uring::io::close_direct_fd; fd::AsyncFd::{from_raw,fd,kind}
//@ stubs: crate::lock -> try_lock model; <core::io::CustomOwner as Drop>::drop -> no-op
fn c07_asyncfd_drop() {
    let full: bool = kani::any();
    let sq = ring(if full { 0 } else { 2 });
    let fd: i32 = kani::any();
    kani::assume(fd >= 0 && fd < i32::MAX);
    let direct: bool = kani::any();
    let kind = if direct { Kind::Direct } else { Kind::File };
    let afd = unsafe { AsyncFd::from_raw(fd, kind, sq.clone()) };
    assert!(afd.fd() == fd && afd.kind() == kind, "descriptor word round-trips (sign bit marks direct)");
    let tail0 = k::sq_tail();
    drop(afd);
    let (closes, last, regs) = unsafe { (k::CLOSES.v, k::LAST_CLOSED.v, REG_CALLS.v) };
    if !full {
        assert!(k::sq_tail() == tail0 + 1, "exactly one close request through the ring");
        assert!(closes == 0 && regs == 0, "and no synchronous close as well");
        let e = k::sqe_view(k::sqe(0));
        let mut want = k::ZERO_SQE;
        want.opcode = OP_CLOSE;
        want.user_data = 3;
        want.flags = libc::IOSQE_CQE_SKIP_SUCCESS;
        if direct {
            want.file_index = fd as u32 + 1;
        } else {
            want.fd = fd;
        }
        assert!(e == want, "the right descriptor, closed the right way");
    } else {
        assert!(k::sq_tail() == tail0, "queue full: nothing submitted");
        if direct {
            assert!(closes == 0, "a direct descriptor is not a process descriptor");
            assert!(regs == 1 && unsafe { REG_OP.v } == libc::IORING_REGISTER_FILES_UPDATE);
            let (off, fd0, nr) = unsafe { (REG_OFFSET.v, REG_FD0.v, REG_NR.v) };
            assert!(off == fd as u32 && fd0 == -1 && nr == 1, "unregisters exactly this descriptor's slot");
        } else {
            assert!(closes == 1 && last == fd && regs == 0, "close(2) exactly once on exactly this descriptor");
        }
    }
    kani::cover!(full && direct);
    kani::cover!(!full && direct && fd > 0);
    kani::cover!(full && !direct);
    std::mem::forget(sq);
}

//@ prop: C07
//@ tier: quick
//@ what: AsyncFd::close consumes the handle without closing anything itself; the Close operation it returns encodes exactly that descriptor (regular: fd, direct: file_index = fd+1); the standard-stream handles close nothing when dropped
//@ bound: fd any in 0..2^31-1; kind symbolic
//@ encodes: io::AsyncFd::close; <io_uring::io::CloseOp as Op>::fill_submission; io::{stdin,stdout,stderr} + their Drop
//@ stubs: crate::lock -> try_lock model; <core::io::CustomOwner as Drop>::drop -> no-op
fn c07_close_and_stdio() {
    let sq = ring(2);
    let fd: i32 = kani::any();
    kani::assume(fd >= 0 && fd < i32::MAX);
    let direct: bool = kani::any();
    let kind = if direct { Kind::Direct } else { Kind::File };
    let afd = unsafe { AsyncFd::from_raw(fd, kind, sq.clone()) };
    let mut close = afd.close();
    assert!(k::sq_tail() == 0 && unsafe { k::CLOSES.v } == 0 && unsafe { REG_CALLS.v } == 0, "close() itself closes nothing (no double close with Drop)");
    let mut args = crate::io::verif_c10::close_args(&mut close);
    assert!(args.0 == fd && args.1 == kind);
    let mut sub = k::new_submission();
    <crate::io_uring::io::CloseOp as Op>::fill_submission(&mut (), &mut args, &mut sub);
    let e = k::submission_view(&sub);
    let mut want = k::ZERO_SQE;
    want.opcode = OP_CLOSE;
    if direct {
        want.file_index = fd as u32 + 1;
    } else {
        want.fd = fd;
    }
    assert!(e == want);
    std::mem::forget(close);
    // standard streams
    let which: u8 = kani::any();
    kani::assume(which < 3);
    match which {
        0 => drop(crate::io::stdin(sq.clone())),
        1 => drop(crate::io::stdout(sq.clone())),
        _ => drop(crate::io::stderr(sq.clone())),
    }
    assert!(k::sq_tail() == 0 && unsafe { k::CLOSES.v } == 0, "standard streams are never closed");
    kani::cover!(direct);
    kani::cover!(which == 2);
    std::mem::forget(sq);
}

//@ prop: C07
//@ tier: quick
//@ what: descriptor-bearing results are wrapped exactly once with the right kind: socket(kind requested), accept / multishot accept (kind of the listener), to_direct (always direct, the index the kernel wrote), to_fd (always regular); the wrapped number is the kernel's
//@ bound: result descriptor any in 0..2^31-1; kinds symbolic
//@ encodes: <io_uring::net::SocketOp as Op>::map_ok; <io_uring::net::MultishotAcceptOp as FdIter>::map_next; <io_uring::fd::ToDirectOp as Op>::map_ok; <io_uring::fd::ToFdOp as FdOp>::map_ok
//@ stubs: crate::lock -> try_lock model; <core::io::CustomOwner as Drop>::drop -> no-op
fn c07_fd_results_wrapped() {
    let sq = ring(2);
    let newfd: u32 = kani::any();
    kani::assume(newfd < i32::MAX as u32);
    let direct: bool = kani::any();
    let kind = if direct { Kind::Direct } else { Kind::File };
    let ret: OpReturn = (unsafe { std::mem::zeroed() }, newfd);
    let which: u8 = kani::any();
    kani::assume(which < 4);
    let (got, want_kind) = match which {
        0 => (<net::SocketOp as Op>::map_ok(&sq, kind, ret), kind),
        1 => {
            let l = ManuallyDrop::new(unsafe { AsyncFd::from_raw(3, kind, sq.clone()) });
            (<net::MultishotAcceptOp as FdIter>::map_next(&l, &(), ret), kind)
        }
        2 => {
            // the kernel wrote the allocated index into the resources
            (<ToDirectOp<()> as Op>::map_ok(&sq, ((), newfd as i32), (unsafe { std::mem::zeroed() }, 1)), Kind::Direct)
        }
        _ => {
            let d = ManuallyDrop::new(unsafe { AsyncFd::from_raw(3, Kind::Direct, sq.clone()) });
            (<ToFdOp as FdOp>::map_ok(&d, (), ret), Kind::File)
        }
    };
    assert!(got.fd() == newfd as i32 && got.kind() == want_kind, "one handle, right number, right kind");
    kani::cover!(which == 2);
    kani::cover!(which == 1 && direct);
    std::mem::forget(got);
    std::mem::forget(sq);
}

//@ prop: C07
//@ tier: quick
//@ what: a descriptor delivered to an operation that was abandoned while in flight (socket/accept/open future dropped, the kernel then completes it successfully with a new descriptor) must be closed: after the final completion a close request for exactly that descriptor exists
//@ bound: result descriptor any in 0..2^31-1; regular descriptors
//@ encodes: <io_uring::op::State as OpState>::drop; io_uring::cq::Completion::process; io_uring::op::Shared::update
//@ stubs: crate::lock -> try_lock model; <core::io::CustomOwner as Drop>::drop -> no-op
fn c07_abandoned_fd_result() {
    use crate::io_uring::op::{Singleshot, State};
    use crate::op::OpState;
    let sq = ring(2);
    // a descriptor-creating operation (socket): resources = requested kind
    let mut st: State<Singleshot, Kind, ()> = State::new(Kind::File, ());
    ops::force_running(&mut st, 0, 0, None);
    let ud = ops::state_user_data(&st);
    unsafe { OpState::drop(&mut st, &sq) };
    let tail_after_drop = k::sq_tail();
    let newfd: i32 = kani::any();
    kani::assume(newfd >= 0 && newfd < i32::MAX);
    // the cancel lost the race: the operation completed with a descriptor
    let mut c: crate::io_uring::cq::Completion = crate::io_uring::cq::Completion(unsafe { std::mem::zeroed() });
    c.0.user_data = ud;
    c.0.res = newfd;
    unsafe { crate::io_uring::cq::verif_c05::process(&c) };
    let closed_sync = unsafe { k::CLOSES.v == 1 && k::LAST_CLOSED.v == newfd };
    let closed_ring = k::sq_tail() == tail_after_drop + 1 && {
        let e = k::sqe_view(k::sqe(1));
        e.opcode == OP_CLOSE && e.fd == newfd
    };
    assert!(closed_sync || closed_ring, "descriptor delivered to an abandoned operation is never closed");
    kani::cover!(true);
    std::mem::forget(sq);
}

}

/// Accessor for C13 (`state` is private to `io_uring::fd`).
pub(crate) fn to_direct_res_addr(f: &super::ToDirect<'_>) -> usize {
    ops::resources_addr(&f.state)
}
