//@@ attach: src/io_uring/mod.rs
//! Support code shared by the harnesses: ring memory the harness owns, direct
//! construction of `Shared`/`Submissions`/`Completions` over it (skipping
//! `io_uring_setup`/`mmap`), the model kernel behind the `verif_hooks` table and
//! counting wakers. Child of `io_uring`, so it sees the private fields.
#![allow(dead_code, unused_imports, static_mut_refs, clippy::all, clippy::pedantic)]

use std::mem;
use std::os::fd::{FromRawFd, OwnedFd};
use std::ptr::{self, NonNull};
use std::sync::atomic::{AtomicU32, Ordering};
use std::sync::{Arc, Mutex};
use std::task;

use super::cq::Completion;
use super::sq::Submission;
use super::{Completions, Shared, Submissions, libc, verif_hooks};
use crate::PollingState;


/// Largest ring the static memory below can back.
pub(crate) const MAX_ENTRIES: usize = 8;

/// File descriptor number the model hands out for the ring. Never opened, so a
/// native replay closing it gets EBADF from the real kernel (ignored by std).
pub(crate) const RING_FD: i32 = 1000;

#[repr(C, align(64))]
pub(crate) struct SqMem {
    pub(crate) head: AtomicU32,
    pub(crate) tail: AtomicU32,
    pub(crate) flags: AtomicU32,
    pub(crate) dropped: AtomicU32,
    pub(crate) sqes: [libc::io_uring_sqe; MAX_ENTRIES],
    /// see verif_stubs::V (keeps the static's bytes unlike any constant)
    magic: u64,
}

#[repr(C, align(64))]
pub(crate) struct CqMem {
    pub(crate) head: AtomicU32,
    pub(crate) tail: AtomicU32,
    pub(crate) overflow: AtomicU32,
    pub(crate) flags: AtomicU32,
    pub(crate) cqes: [libc::io_uring_cqe; MAX_ENTRIES],
    magic: u64,
}

pub(crate) static mut SQ: SqMem = {
    let mut m: SqMem = unsafe { mem::zeroed() };
    m.magic = 0x5EED_A10C_0000_0051;
    m
};
pub(crate) static mut CQ: CqMem = {
    let mut m: CqMem = unsafe { mem::zeroed() };
    m.magic = 0x5EED_A10C_0000_00C1;
    m
};

pub(crate) fn sq_mem() -> &'static mut SqMem {
    unsafe { &mut *(&raw mut SQ) }
}

pub(crate) fn cq_mem() -> &'static mut CqMem {
    unsafe { &mut *(&raw mut CQ) }
}

/// Build a `Shared` directly over `SQ` (no system calls). `len` must be a
/// power of two <= MAX_ENTRIES.
pub(crate) fn build_shared(len: u32, kernel_thread: bool, single_issuer: bool) -> Shared {
    let mem = sq_mem();
    Shared {
        submission_ring: NonNull::from(&mut *mem).cast(),
        submission_ring_len: 16,
        kernel_flags: NonNull::from(&mem.flags),
        submissions_head: NonNull::from(&mem.head),
        submissions_tail: NonNull::from(&mem.tail),
        submissions: NonNull::from(&mut mem.sqes[0]).cast(),
        submissions_lock: Mutex::new(()),
        submissions_len: len,
        kernel_thread,
        single_issuer,
        polling: PollingState::new(),
        blocked_futures: Mutex::new(Vec::new()),
        rfd: unsafe { OwnedFd::from_raw_fd(RING_FD) },
    }
}

/// Like `build_shared`, but constructed IN PLACE inside its `Arc` allocation,
/// field by field. `Arc::new(shared)` moves the struct with a byte-wise copy,
/// after which CBMC no longer sees the individual fields of the heap object
/// and cannot fold constants read back from it (e.g. "the blocked-futures list
/// is empty", "the mutex is unlocked").
pub(crate) fn build_shared_arc(len: u32, kernel_thread: bool, single_issuer: bool) -> Arc<Shared> {
    let mem = sq_mem();
    let mut arc: Arc<mem::MaybeUninit<Shared>> = Arc::new_uninit();
    let p: *mut Shared = Arc::get_mut(&mut arc).unwrap().as_mut_ptr();
    unsafe {
        ptr::addr_of_mut!((*p).submission_ring).write(NonNull::from(&mut *mem).cast());
        ptr::addr_of_mut!((*p).submission_ring_len).write(16);
        ptr::addr_of_mut!((*p).kernel_flags).write(NonNull::from(&mem.flags));
        ptr::addr_of_mut!((*p).submissions_head).write(NonNull::from(&mem.head));
        ptr::addr_of_mut!((*p).submissions_tail).write(NonNull::from(&mem.tail));
        ptr::addr_of_mut!((*p).submissions).write(NonNull::from(&mut mem.sqes[0]).cast());
        ptr::addr_of_mut!((*p).submissions_lock).write(Mutex::new(()));
        ptr::addr_of_mut!((*p).submissions_len).write(len);
        ptr::addr_of_mut!((*p).kernel_thread).write(kernel_thread);
        ptr::addr_of_mut!((*p).single_issuer).write(single_issuer);
        ptr::addr_of_mut!((*p).polling).write(PollingState::new());
        // capacity reserved so that pushing a waiter does not go through Vec's
        // grow/realloc path (symbolic-size realloc: out of memory in CBMC)
        ptr::addr_of_mut!((*p).blocked_futures).write(Mutex::new(Vec::with_capacity(4)));
        ptr::addr_of_mut!((*p).rfd).write(OwnedFd::from_raw_fd(RING_FD));
        arc.assume_init()
    }
}

pub(crate) fn sq_set(head: u32, tail: u32) {
    let mem = sq_mem();
    mem.head.store(head, Ordering::Relaxed);
    mem.tail.store(tail, Ordering::Relaxed);
}

pub(crate) fn sq_head() -> u32 {
    sq_mem().head.load(Ordering::Relaxed)
}

pub(crate) fn sq_tail() -> u32 {
    sq_mem().tail.load(Ordering::Relaxed)
}

pub(crate) fn sqe(index: usize) -> &'static mut libc::io_uring_sqe {
    &mut sq_mem().sqes[index]
}

/// Plain-field view of a submission entry (for harnesses outside `io_uring`).
#[derive(Copy, Clone, PartialEq, Eq, Debug)]
pub(crate) struct Sqe {
    pub opcode: u8,
    pub flags: u8,
    pub ioprio: u16,
    pub fd: i32,
    pub off: u64,
    pub addr: u64,
    pub len: u32,
    pub op_flags: u32,
    pub user_data: u64,
    pub buf_index: u16,
    pub personality: u16,
    pub file_index: u32,
    pub addr3: u64,
    pub pad2: u64,
}

/// Decodes by ABI byte offset (io_uring.h), not through a10's field names.
pub(crate) fn sqe_view(s: &libc::io_uring_sqe) -> Sqe {
    const _SIZE: () = assert!(mem::size_of::<libc::io_uring_sqe>() == 64);
    let w: [u64; 8] = unsafe { ptr::read(ptr::from_ref(s).cast::<[u64; 8]>()) };
    Sqe {
        opcode: w[0] as u8,
        flags: (w[0] >> 8) as u8,
        ioprio: (w[0] >> 16) as u16,
        fd: (w[0] >> 32) as u32 as i32,
        off: w[1],
        addr: w[2],
        len: w[3] as u32,
        op_flags: (w[3] >> 32) as u32,
        user_data: w[4],
        buf_index: w[5] as u16,
        personality: (w[5] >> 16) as u16,
        file_index: (w[5] >> 32) as u32,
        addr3: w[6],
        pad2: w[7],
    }
}

pub(crate) fn submission_view(s: &Submission) -> Sqe {
    sqe_view(&s.0)
}

pub(crate) const ZERO_SQE: Sqe = Sqe {
    opcode: 0,
    flags: 0,
    ioprio: 0,
    fd: 0,
    off: 0,
    addr: 0,
    len: 0,
    op_flags: 0,
    user_data: 0,
    buf_index: 0,
    personality: 0,
    file_index: 0,
    addr3: 0,
    pad2: 0,
};

pub(crate) fn new_submission() -> Submission {
    Submission(unsafe { mem::zeroed() })
}

// ---------------------------------------------------------------------------
// Hook table helpers.
// ---------------------------------------------------------------------------

pub(crate) static mut MUNMAPS: crate::verif_stubs::V<u32> = crate::verif_stubs::V::new(0);
pub(crate) static mut CLOSES: crate::verif_stubs::V<u32> = crate::verif_stubs::V::new(0);
pub(crate) static mut LAST_CLOSED: crate::verif_stubs::V<i32> = crate::verif_stubs::V::new(-1);

unsafe fn munmap_noop(_: NonNull<libc::c_void>, _: libc::size_t) -> std::io::Result<()> {
    unsafe { MUNMAPS.v += 1 };
    Ok(())
}

unsafe fn close_count(fd: libc::c_int) -> libc::c_int {
    unsafe {
        CLOSES.v += 1;
        LAST_CLOSED.v = fd;
    }
    0
}

/// Table for harnesses that build the ring directly over static memory:
/// unmapping is a no-op, `close` is counted, no system call is reachable
/// unless the harness adds one.
pub(crate) fn base_table() -> verif_hooks::Table {
    verif_hooks::Table {
        munmap: Some(munmap_noop),
        close: Some(close_count),
        ..verif_hooks::Table::EMPTY
    }
}

pub(crate) fn install(table: verif_hooks::Table) {
    unsafe { verif_hooks::install(table) };
}

// ---------------------------------------------------------------------------
// Counting wakers.
// ---------------------------------------------------------------------------

pub(crate) const N_WAKERS: usize = 4;
pub(crate) static mut WAKES: crate::verif_stubs::V<[u32; N_WAKERS]> = crate::verif_stubs::V::new([0; N_WAKERS]);
pub(crate) static mut WAKER_CLONES: crate::verif_stubs::V<[i32; N_WAKERS]> = crate::verif_stubs::V::new([0; N_WAKERS]);
/// Global order in which wakers were woken: WAKE_STAMP[id] = k means waker
/// `id` was (last) woken as the k-th wake overall (1-based).
pub(crate) static mut WAKE_STAMP: crate::verif_stubs::V<[u32; N_WAKERS]> = crate::verif_stubs::V::new([0; N_WAKERS]);
pub(crate) static mut WAKE_SEQ: crate::verif_stubs::V<u32> = crate::verif_stubs::V::new(0);

unsafe fn w_clone(data: *const ()) -> task::RawWaker {
    let id = data as usize - 1;
    unsafe { WAKER_CLONES.v[id] += 1 };
    task::RawWaker::new(data, &WAKER_VTABLE)
}
unsafe fn w_wake(data: *const ()) {
    let id = data as usize - 1;
    unsafe {
        WAKES.v[id] += 1;
        WAKE_SEQ.v += 1;
        WAKE_STAMP.v[id] = WAKE_SEQ.v;
        WAKER_CLONES.v[id] -= 1;
    }
}
unsafe fn w_wake_by_ref(data: *const ()) {
    let id = data as usize - 1;
    unsafe {
        WAKES.v[id] += 1;
        WAKE_SEQ.v += 1;
        WAKE_STAMP.v[id] = WAKE_SEQ.v;
    }
}
unsafe fn w_drop(data: *const ()) {
    let id = data as usize - 1;
    unsafe { WAKER_CLONES.v[id] -= 1 };
}

static WAKER_VTABLE: task::RawWakerVTable = task::RawWakerVTable::new(w_clone, w_wake, w_wake_by_ref, w_drop);

/// Waker number `id` (< N_WAKERS). Waking it increments `WAKES[id]`.
pub(crate) fn waker(id: usize) -> task::Waker {
    unsafe {
        WAKER_CLONES.v[id] += 1;
        task::Waker::from_raw(task::RawWaker::new((id + 1) as *const (), &WAKER_VTABLE))
    }
}

pub(crate) fn wakes(id: usize) -> u32 {
    unsafe { WAKES.v[id] }
}

pub(crate) fn waker_clones(id: usize) -> i32 {
    unsafe { WAKER_CLONES.v[id] }
}

pub(crate) fn wake_stamp(id: usize) -> u32 {
    unsafe { WAKE_STAMP.v[id] }
}

/// Identity of a waker created by [`waker`], None for foreign wakers.
pub(crate) fn waker_id(w: &task::Waker) -> Option<usize> {
    if ptr::eq(w.vtable(), &WAKER_VTABLE) {
        Some(w.data() as usize - 1)
    } else {
        None
    }
}

// ---------------------------------------------------------------------------
// Kani stubs for `std::task::Waker`: direct calls instead of the vtable's
// function pointers. Every waker in a harness is a counting waker from
// `waker()`, so the behaviour is identical; what goes away is CBMC's fan-out
// over every function whose signature matches `unsafe fn(*const ())` -- which
// includes a10's `drop_state` (it drops a Waker itself: unbounded recursion up
// to the unwind bound).
// ---------------------------------------------------------------------------

pub(crate) fn waker_drop_direct(w: &mut task::Waker) {
    unsafe { w_drop(w.data()) }
}

pub(crate) fn waker_clone_direct(w: &task::Waker) -> task::Waker {
    unsafe { task::Waker::from_raw(w_clone(w.data())) }
}

pub(crate) fn waker_wake_direct(w: task::Waker) {
    let data = w.data();
    mem::forget(w);
    unsafe { w_wake(data) }
}

pub(crate) fn waker_wake_by_ref_direct(w: &task::Waker) {
    unsafe { w_wake_by_ref(w.data()) }
}

/// IORING_OP_PIPE as a10's bindings define it (newer opcode, not in every
/// table).
pub(crate) fn op_pipe() -> u32 {
    libc::IORING_OP_PIPE
}
