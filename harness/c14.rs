//@@ attach: src/lib.rs
//! C14: buffer trait laws (pointer/length/initialisation) -- pure code.
//!
//! Reference model: a buffer is (base pointer, len, capacity). The laws
//! (from the property): the exposed pair lies inside the buffer's allocation,
//! lengths/spare capacities agree with the pair, `set_init(n)` appends exactly
//! `n` bytes front to back, a limit is never exceeded (and is honoured exactly).
#![allow(unused_imports, dead_code, clippy::all)]

use std::borrow::Cow;
use std::sync::Arc;

use crate::io::{Buf, BufMut, BufMutSlice, BufSlice, IoMutSlice, IoSlice, LimitedBuf, StaticBuf};

const MAXCAP: usize = 6;

/// Vec with *concrete* capacity CAP (a symbolic allocation size costs CBMC
/// ~40x: measured 2.6 M vs 67 k SAT variables), symbolic length <= CAP and
/// symbolic contents. No `push`, so `Vec`'s grow path stays out of the formula.
fn any_vec<const CAP: usize>() -> Vec<u8> {
    let len: usize = kani::any();
    kani::assume(len <= CAP);
    let mut v: Vec<u8> = Vec::with_capacity(CAP);
    kani::assume(v.capacity() == CAP);
    let init: [u8; CAP] = kani::any();
    unsafe {
        core::ptr::copy_nonoverlapping(init.as_ptr(), v.as_mut_ptr(), CAP);
        v.set_len(len);
    }
    v
}

/// Either the unallocated `Vec::new()` (capacity 0, dangling pointer) or
/// `any_vec::<CAP>()`.
fn any_vec_or_unallocated<const CAP: usize>() -> Vec<u8> {
    if kani::any() { Vec::new() } else { any_vec::<CAP>() }
}

/// Symbolic ASCII bytes, capacity CAP, symbolic length <= CAP.
fn any_ascii<const CAP: usize>() -> Vec<u8> {
    let v = any_vec::<CAP>();
    let mut i = 0;
    while i < CAP {
        if i < v.len() {
            kani::assume(v[i] < 128);
        }
        i += 1;
    }
    v
}

//@ prop: C14
//@ tier: quick
//@ what: <Vec<u8> as BufMut>: parts_mut points at the spare capacity, spare_capacity/has_spare_capacity agree, set_init(n) appends exactly the n bytes written, old bytes untouched
//@ bound: capacity 0..=6, any fill level, any contents, any n <= spare
//@ encodes: <Vec<u8> as BufMut>::{parts_mut,set_init,spare_capacity,has_spare_capacity}
#[kani::proof]
#[kani::unwind(8)]
fn c14_vec_bufmut() {
    let mut v = any_vec_or_unallocated::<MAXCAP>();
    let cap = v.capacity();
    let len = v.len();
    let base = v.as_ptr();
    let mut old = [0u8; MAXCAP];
    let mut i = 0;
    while i < len {
        old[i] = v[i];
        i += 1;
    }
    let (ptr, l) = unsafe { v.parts_mut() };
    // (a) inside the allocation: [base+len, base+cap)
    assert!(ptr as *const u8 == unsafe { base.add(len) });
    assert!(l as usize == cap - len);
    // (b) agreement
    assert!(v.spare_capacity() == l);
    assert!(BufMut::has_spare_capacity(&v) == (l != 0));
    // (c) the "kernel" writes n bytes, set_init(n) appends exactly those
    let n: usize = kani::any();
    kani::assume(n <= l as usize);
    let fill: [u8; MAXCAP] = kani::any();
    let mut i = 0;
    while i < n {
        unsafe { ptr.add(i).write(fill[i]) };
        i += 1;
    }
    unsafe { BufMut::set_init(&mut v, n) };
    assert!(v.len() == len + n);
    assert!(v.capacity() == cap);
    assert!(v.as_ptr() == base);
    let mut i = 0;
    while i < len + n {
        if i < len {
            assert!(v[i] == old[i]);
        } else {
            assert!(v[i] == fill[i - len]);
        }
        i += 1;
    }
    kani::cover!(n > 0 && len > 0 && len + n == cap);
    kani::cover!(cap == 0);
}

//@ prop: C14
//@ tier: quick
//@ what: <Vec<u8> as BufMut>::extend_from_slice copies min(spare, bytes.len()) bytes in order and reports that count
//@ bound: capacity 0..=6, source 0..=4 bytes
//@ encodes: BufMut::extend_from_slice; io::traits::copy_bytes
#[kani::proof]
#[kani::unwind(8)]
fn c14_vec_extend_from_slice() {
    let mut v = any_vec_or_unallocated::<MAXCAP>();
    let cap = v.capacity();
    let len = v.len();
    let src: [u8; 4] = kani::any();
    let sl: usize = kani::any();
    kani::assume(sl <= 4);
    let n = BufMut::extend_from_slice(&mut v, &src[..sl]);
    assert!(n == core::cmp::min(cap - len, sl));
    assert!(v.len() == len + n);
    let mut i = 0;
    while i < n {
        assert!(v[len + i] == src[i]);
        i += 1;
    }
    kani::cover!(n < sl);
    kani::cover!(n == sl && n > 0);
}

fn check_buf<B: Buf>(b: &B, ptr: *const u8, len: usize) {
    let (p, l) = unsafe { b.parts() };
    assert!(p == ptr);
    assert!(l as usize == len);
    assert!(b.len() == len);
    assert!(b.is_empty() == (len == 0));
    let s = b.as_slice();
    assert!(s.as_ptr() == ptr && s.len() == len);
}

//@ prop: C14
//@ tier: quick
//@ what: Buf for the owned byte containers: parts() == (data pointer, length), len/is_empty/as_slice agree
//@ bound: 0..=4 bytes, any contents
//@ encodes: <Vec<u8> as Buf>; <Box<[u8]> as Buf>; <Arc<[u8]> as Buf>; <Cow<'static,[u8]> as Buf>
#[kani::proof]
#[kani::unwind(6)]
fn c14_buf_bytes_owned() {
    let v = any_vec::<4>();
    check_buf(&v, v.as_ptr(), v.len());
    let len = v.len();
    let b: Box<[u8]> = v.clone().into_boxed_slice();
    check_buf(&b, b.as_ptr(), len);
    let c: Cow<'static, [u8]> = Cow::Owned(v.clone());
    let p = c.as_ptr();
    check_buf(&c, p, len);
    let a: Arc<[u8]> = Arc::from(v.clone().into_boxed_slice());
    check_buf(&a, a.as_ptr(), len);
    kani::cover!(len == 4);
    kani::cover!(len == 0);
    core::mem::forget(a);
}

static STATIC_BYTES: [u8; 4] = [1, 2, 3, 4];

//@ prop: C14
//@ tier: quick
//@ what: Buf for static slices/strs, StaticBuf, Cow::Borrowed: parts() == (pointer, length) of the chosen sub-slice
//@ bound: every sub-slice [lo, hi) of a 4-byte static
//@ encodes: <&'static [u8] as Buf>; <&'static str as Buf>; <StaticBuf as Buf>; <Cow<'static,[u8]> as Buf>; <Cow<'static,str> as Buf>
#[kani::proof]
#[kani::unwind(6)]
fn c14_buf_static() {
    let lo: usize = kani::any();
    let hi: usize = kani::any();
    kani::assume(lo <= hi && hi <= 4);
    let s: &'static [u8] = &STATIC_BYTES[lo..hi];
    check_buf(&s, s.as_ptr(), hi - lo);
    let sb = StaticBuf::from(s);
    check_buf(&sb, s.as_ptr(), hi - lo);
    let c: Cow<'static, [u8]> = Cow::Borrowed(s);
    check_buf(&c, s.as_ptr(), hi - lo);
    let st: &'static str = unsafe { core::str::from_utf8_unchecked(s) };
    check_buf(&st, s.as_ptr(), hi - lo);
    let sb2 = StaticBuf::from(st);
    check_buf(&sb2, s.as_ptr(), hi - lo);
    let cs: Cow<'static, str> = Cow::Borrowed(st);
    check_buf(&cs, s.as_ptr(), hi - lo);
    kani::cover!(lo == 1 && hi == 4);
    kani::cover!(lo == hi);
}

//@ prop: C14
//@ tier: quick
//@ what: Buf for String, Box<str>, Arc<str>, Cow::Owned(String): parts() == (data pointer, length)
//@ bound: 0..=4 ASCII bytes
//@ encodes: <String as Buf>; <Box<str> as Buf>; <Arc<str> as Buf>; <Cow<'static,str> as Buf>
#[kani::proof]
#[kani::unwind(6)]
fn c14_buf_strings() {
    let bytes = any_ascii::<4>();
    let len = bytes.len();
    let s: String = unsafe { String::from_utf8_unchecked(bytes) };
    check_buf(&s, s.as_ptr(), len);
    let c: Cow<'static, str> = Cow::Owned(s.clone());
    let p = c.as_ptr();
    check_buf(&c, p, len);
    let a: Arc<str> = Arc::from(s.clone().into_boxed_str());
    check_buf(&a, a.as_ptr(), len);
    let b: Box<str> = s.into_boxed_str();
    check_buf(&b, b.as_ptr(), len);
    kani::cover!(len == 4);
    kani::cover!(len == 0);
    core::mem::forget(a);
}

// ---------------------------------------------------------------------------
// Vectored buffers: arrays and tuples.
// ---------------------------------------------------------------------------

const VCAP: usize = 3;

/// Reference distribution of `n` initialised bytes over buffers with the given
/// spare capacities, front to back.
fn model_distribute<const N: usize>(spare: [usize; N], n: usize) -> [usize; N] {
    let mut out = [0usize; N];
    let mut left = n;
    let mut i = 0;
    while i < N {
        let take = core::cmp::min(spare[i], left);
        out[i] = take;
        left -= take;
        i += 1;
    }
    out
}

fn check_mut_slice<B: BufMutSlice<N>, const N: usize>(
    bufs: &mut B,
    lens: [usize; N],
    caps: [usize; N],
    bases: [*const u8; N],
    get_len: impl Fn(&B, usize) -> usize,
) {
    let mut spare = [0usize; N];
    let mut total = 0usize;
    let mut i = 0;
    while i < N {
        spare[i] = caps[i] - lens[i];
        total += spare[i];
        i += 1;
    }
    let iovecs = unsafe { bufs.as_iovecs_mut() };
    let mut i = 0;
    while i < N {
        assert!(iovecs[i].len() == spare[i]);
        assert!(unsafe { iovecs[i].ptr() } == unsafe { bases[i].add(lens[i]) });
        i += 1;
    }
    assert!(bufs.total_spare_capacity() as usize == total);
    assert!(bufs.has_spare_capacity() == (total != 0));
    let n: usize = kani::any();
    kani::assume(n <= total);
    unsafe { bufs.set_init(n) };
    let want = model_distribute(spare, n);
    let mut i = 0;
    while i < N {
        assert!(get_len(bufs, i) == lens[i] + want[i]);
        i += 1;
    }
    kani::cover!(n == total && total > 0);
    kani::cover!(n > 0 && n < total);
}

//@ prop: C14
//@ tier: quick
//@ what: BufMutSlice for [Vec<u8>; 2]: iovecs are the spare capacities in order, total_spare_capacity is their sum, set_init(n) distributes n front to back
//@ bound: N=2, capacities 0..=3 each (incl. full and empty buffers in any position), any n <= total
//@ encodes: <[B; N] as BufMutSlice<N>>::{as_iovecs_mut,set_init,total_spare_capacity,has_spare_capacity}; unix::IoMutSlice::new
#[kani::proof]
#[kani::unwind(5)]
fn c14_array2_bufmutslice() {
    let mut bufs = [any_vec::<VCAP>(), any_vec::<VCAP>()];
    let lens = [bufs[0].len(), bufs[1].len()];
    let caps = [bufs[0].capacity(), bufs[1].capacity()];
    let bases = [bufs[0].as_ptr(), bufs[1].as_ptr()];
    check_mut_slice(&mut bufs, lens, caps, bases, |b, i| b[i].len());
}

//@ prop: C14
//@ tier: quick
//@ what: BufMutSlice for [Vec<u8>; 3] (same laws as N=2)
//@ bound: N=3, capacities 0..=2 each, any n <= total
//@ encodes: <[B; N] as BufMutSlice<N>>
#[kani::proof]
#[kani::unwind(5)]
fn c14_array3_bufmutslice() {
    let mut bufs = [any_vec::<2>(), any_vec::<2>(), any_vec::<2>()];
    let lens = [bufs[0].len(), bufs[1].len(), bufs[2].len()];
    let caps = [bufs[0].capacity(), bufs[1].capacity(), bufs[2].capacity()];
    let bases = [bufs[0].as_ptr(), bufs[1].as_ptr(), bufs[2].as_ptr()];
    check_mut_slice(&mut bufs, lens, caps, bases, |b, i| b[i].len());
}

//@ prop: C14
//@ tier: quick
//@ what: BufMutSlice for the tuple (Vec<u8>, Vec<u8>) (macro-generated impl)
//@ bound: arity 2, capacities 0..=3 each, any n <= total
//@ encodes: buf_slice_for_tuple!(2) BufMutSlice
#[kani::proof]
#[kani::unwind(5)]
fn c14_tuple2_bufmutslice() {
    let mut bufs = (any_vec::<VCAP>(), any_vec::<VCAP>());
    let lens = [bufs.0.len(), bufs.1.len()];
    let caps = [bufs.0.capacity(), bufs.1.capacity()];
    let bases = [bufs.0.as_ptr(), bufs.1.as_ptr()];
    check_mut_slice(&mut bufs, lens, caps, bases, |b, i| if i == 0 { b.0.len() } else { b.1.len() });
}

//@ prop: C14
//@ tier: quick
//@ what: BufMutSlice for the tuple (Vec<u8>, Vec<u8>, Vec<u8>)
//@ bound: arity 3, capacities 0..=2 each, any n <= total
//@ encodes: buf_slice_for_tuple!(3) BufMutSlice
#[kani::proof]
#[kani::unwind(5)]
fn c14_tuple3_bufmutslice() {
    let mut bufs = (any_vec::<2>(), any_vec::<2>(), any_vec::<2>());
    let lens = [bufs.0.len(), bufs.1.len(), bufs.2.len()];
    let caps = [bufs.0.capacity(), bufs.1.capacity(), bufs.2.capacity()];
    let bases = [bufs.0.as_ptr(), bufs.1.as_ptr(), bufs.2.as_ptr()];
    check_mut_slice(&mut bufs, lens, caps, bases, |b, i| match i {
        0 => b.0.len(),
        1 => b.1.len(),
        _ => b.2.len(),
    });
}

fn check_slice<B: BufSlice<N>, const N: usize>(bufs: &B, lens: [usize; N], bases: [*const u8; N]) {
    let iovecs = unsafe { bufs.as_iovecs() };
    let mut total = 0;
    let mut i = 0;
    while i < N {
        assert!(iovecs[i].len() == lens[i]);
        assert!(unsafe { iovecs[i].ptr() } == bases[i]);
        total += lens[i];
        i += 1;
    }
    assert!(bufs.total_len() == total);
    assert!(bufs.is_empty() == (total == 0));
    kani::cover!(total == 0);
    kani::cover!(total > 2);
}

//@ prop: C14
//@ tier: quick
//@ what: BufSlice for [Vec<u8>; 2] and (Vec<u8>, Vec<u8>): iovecs are the buffers' (ptr,len) in order; total_len/is_empty agree
//@ bound: N=2, lengths 0..=3 each
//@ encodes: <[B; N] as BufSlice<N>>; buf_slice_for_tuple!(2) BufSlice; unix::IoSlice::new
#[kani::proof]
#[kani::unwind(5)]
fn c14_bufslice_2() {
    let a2 = [any_vec::<VCAP>(), any_vec::<VCAP>()];
    check_slice(&a2, [a2[0].len(), a2[1].len()], [a2[0].as_ptr(), a2[1].as_ptr()]);
    let t2 = (a2[0].clone(), any_vec::<VCAP>());
    check_slice(&t2, [t2.0.len(), t2.1.len()], [t2.0.as_ptr(), t2.1.as_ptr()]);
}

//@ prop: C14
//@ tier: quick
//@ what: BufSlice for [Vec<u8>; 3] and the 3-tuple
//@ bound: N=3, lengths 0..=2 each
//@ encodes: <[B; N] as BufSlice<N>>; buf_slice_for_tuple!(3) BufSlice
#[kani::proof]
#[kani::unwind(5)]
fn c14_bufslice_3() {
    let a3 = [any_vec::<2>(), any_vec::<2>(), any_vec::<2>()];
    check_slice(
        &a3,
        [a3[0].len(), a3[1].len(), a3[2].len()],
        [a3[0].as_ptr(), a3[1].as_ptr(), a3[2].as_ptr()],
    );
    let t3 = (any_vec::<2>(), any_vec::<2>(), any_vec::<2>());
    check_slice(
        &t3,
        [t3.0.len(), t3.1.len(), t3.2.len()],
        [t3.0.as_ptr(), t3.1.as_ptr(), t3.2.as_ptr()],
    );
}

//@ prop: C14
//@ tier: quick
//@ what: arity-8 tuple: BufSlice iovecs/total_len and BufMutSlice set_init distribution (every arity is a separate macro instantiation in traits.rs, so each one is decided)
//@ bound: arity 8, capacities 0..=1 each
//@ encodes: buf_slice_for_tuple!(8)
//@ timeout: 1200
#[kani::proof]
#[kani::unwind(10)]
fn c14_tuple8() {
    let mut t = (
        any_vec::<1>(), any_vec::<1>(), any_vec::<1>(), any_vec::<1>(), any_vec::<1>(), any_vec::<1>(), any_vec::<1>(), any_vec::<1>(),
    );
    let lens = [
        t.0.len(), t.1.len(), t.2.len(), t.3.len(), t.4.len(), t.5.len(), t.6.len(), t.7.len(),
    ];
    let caps = [
        t.0.capacity(), t.1.capacity(), t.2.capacity(), t.3.capacity(), t.4.capacity(), t.5.capacity(),
        t.6.capacity(), t.7.capacity(),
    ];
    let bases = [
        t.0.as_ptr(), t.1.as_ptr(), t.2.as_ptr(), t.3.as_ptr(), t.4.as_ptr(), t.5.as_ptr(), t.6.as_ptr(),
        t.7.as_ptr(),
    ];
    check_slice(&t, lens, bases);
    check_mut_slice(&mut t, lens, caps, bases, |b, i| match i {
        0 => b.0.len(),
        1 => b.1.len(),
        2 => b.2.len(),
        3 => b.3.len(),
        4 => b.4.len(),
        5 => b.5.len(),
        6 => b.6.len(),
        _ => b.7.len(),
    });
}

macro_rules! tuple_harness {
    ($name:ident, $n:expr, [$($i:tt),*]) => {
        #[kani::proof]
        #[kani::unwind(10)]
        fn $name() {
            let mut t = ( $( { let _ = $i; any_vec::<1>() }, )* );
            let lens = [ $( t.$i.len(), )* ];
            let caps = [ $( t.$i.capacity(), )* ];
            let bases = [ $( t.$i.as_ptr(), )* ];
            check_slice(&t, lens, bases);
            check_mut_slice(&mut t, lens, caps, bases, |b, i| {
                let l = [ $( b.$i.len(), )* ];
                l[i]
            });
        }
    };
}

//@ prop: C14
//@ tier: quick
//@ what: arity-4 tuple: BufSlice iovecs/total_len and BufMutSlice spare capacity / set_init distribution over the elements in order
//@ bound: arity 4, capacities 0..=1 each, fill symbolic
//@ encodes: buf_slice_for_tuple!(4)
tuple_harness!(c14_tuple4, 4, [0, 1, 2, 3]);

//@ prop: C14
//@ tier: quick
//@ what: arity-5 tuple: same laws
//@ bound: arity 5, capacities 0..=1 each, fill symbolic
//@ encodes: buf_slice_for_tuple!(5)
tuple_harness!(c14_tuple5, 5, [0, 1, 2, 3, 4]);

//@ prop: C14
//@ tier: quick
//@ what: arity-6 tuple: same laws
//@ bound: arity 6, capacities 0..=1 each, fill symbolic
//@ encodes: buf_slice_for_tuple!(6)
tuple_harness!(c14_tuple6, 6, [0, 1, 2, 3, 4, 5]);

//@ prop: C14
//@ tier: quick
//@ what: arity-7 tuple: same laws
//@ bound: arity 7, capacities 0..=1 each, fill symbolic
//@ encodes: buf_slice_for_tuple!(7)
tuple_harness!(c14_tuple7, 7, [0, 1, 2, 3, 4, 5, 6]);

// ---------------------------------------------------------------------------
// LimitedBuf
// ---------------------------------------------------------------------------

//@ prop: C14
//@ tier: quick
//@ what: LimitedBuf<Vec<u8>> as Buf: exposed length == min(len, limit) for EVERY usize limit (incl. >= 2^32); len()/is_empty() agree with parts(); pointer unchanged
//@ bound: buffer 0..=4 bytes, limit any usize
//@ encodes: <LimitedBuf<B> as Buf>::{parts,len,is_empty}
#[kani::proof]
#[kani::unwind(6)]
fn c14_limited_buf() {
    let v = any_vec::<4>();
    let len = v.len();
    let base = v.as_ptr();
    let limit: usize = kani::any();
    let b = Buf::limit(v, limit);
    let (p, l) = unsafe { b.parts() };
    assert!(p == base);
    assert!(l as usize <= limit, "limit exceeded");
    assert!(l as usize == core::cmp::min(len, limit), "exposed length is min(len, limit)");
    assert!(b.len() == l as usize, "len() agrees with parts()");
    assert!(b.is_empty() == (l == 0));
    kani::cover!(limit > u32::MAX as usize && len > 0);
    kani::cover!(limit < len);
    kani::cover!(limit == 0);
}

//@ prop: C14
//@ tier: quick
//@ what: LimitedBuf<Vec<u8>> as BufMut: exposed spare == min(spare, limit) for every usize limit; spare_capacity/has_spare_capacity agree; set_init(n) appends n and lowers the limit by n
//@ bound: capacity 0..=4, limit any usize, n <= exposed spare
//@ encodes: <LimitedBuf<B> as BufMut>::{parts_mut,set_init,spare_capacity,has_spare_capacity}
#[kani::proof]
#[kani::unwind(6)]
fn c14_limited_bufmut() {
    let v = any_vec::<4>();
    let len = v.len();
    let cap = v.capacity();
    let base = v.as_ptr();
    let limit: usize = kani::any();
    let mut b = BufMut::limit(v, limit);
    let (p, l) = unsafe { b.parts_mut() };
    assert!(p as *const u8 == unsafe { base.add(len) });
    assert!(l as usize <= limit, "limit exceeded");
    assert!(l as usize == core::cmp::min(cap - len, limit), "exposed spare is min(spare, limit)");
    assert!(b.spare_capacity() == l, "spare_capacity() agrees with parts_mut()");
    assert!(b.has_spare_capacity() == (l != 0), "has_spare_capacity() agrees with parts_mut()");
    let n: usize = kani::any();
    kani::assume(n <= l as usize);
    unsafe { b.set_init(n) };
    let (_, l2) = unsafe { b.parts_mut() };
    // what is left of the limit is what may still be written
    assert!(l2 as usize == core::cmp::min(cap - len - n, limit - n), "limit is consumed by set_init");
    let v = b.into_inner();
    assert!(v.len() == len + n);
    kani::cover!(limit > u32::MAX as usize && cap > len);
    kani::cover!(limit < cap - len && n == limit && n > 0);
}

//@ prop: C14
//@ tier: quick
//@ what: LimitedBuf<[Vec<u8>;2]> as BufSlice: iovec lengths are the front-to-back clamp of the buffers to the limit, total_len == min(total, limit), is_empty agrees
//@ bound: N=2, lengths 0..=3, limit any usize
//@ encodes: <LimitedBuf<B> as BufSlice<N>>::{as_iovecs,total_len,is_empty}
#[kani::proof]
#[kani::unwind(5)]
fn c14_limited_bufslice() {
    let bufs = [any_vec::<VCAP>(), any_vec::<VCAP>()];
    let lens = [bufs[0].len(), bufs[1].len()];
    let bases = [bufs[0].as_ptr(), bufs[1].as_ptr()];
    let limit: usize = kani::any();
    let b = BufSlice::limit(bufs, limit);
    let iovecs = unsafe { b.as_iovecs() };
    let want = model_distribute(lens, core::cmp::min(limit, lens[0] + lens[1]));
    assert!(iovecs[0].len() == want[0] && iovecs[1].len() == want[1]);
    assert!(unsafe { iovecs[0].ptr() } == bases[0] && unsafe { iovecs[1].ptr() } == bases[1]);
    let total = iovecs[0].len() + iovecs[1].len();
    assert!(total <= limit, "limit exceeded");
    assert!(b.total_len() == total);
    assert!(b.is_empty() == (total == 0));
    kani::cover!(limit > u32::MAX as usize && total > 0);
    kani::cover!(limit > lens[0] && limit < lens[0] + lens[1]);
    kani::cover!(limit < lens[0]);
}

//@ prop: C14
//@ tier: quick
//@ what: LimitedBuf<[Vec<u8>;2]> as BufMutSlice: clamped iovecs, total_spare_capacity == min(total spare, limit) for every usize limit, has_spare_capacity agrees, set_init consumes the limit
//@ bound: N=2, capacities 0..=3, limit any usize
//@ encodes: <LimitedBuf<B> as BufMutSlice<N>>::{as_iovecs_mut,set_init,total_spare_capacity,has_spare_capacity}
#[kani::proof]
#[kani::unwind(5)]
fn c14_limited_bufmutslice() {
    let bufs = [any_vec::<VCAP>(), any_vec::<VCAP>()];
    let lens = [bufs[0].len(), bufs[1].len()];
    let spare = [bufs[0].capacity() - lens[0], bufs[1].capacity() - lens[1]];
    let bases = [bufs[0].as_ptr(), bufs[1].as_ptr()];
    let limit: usize = kani::any();
    let mut b = BufMutSlice::limit(bufs, limit);
    let iovecs = unsafe { b.as_iovecs_mut() };
    let want = model_distribute(spare, core::cmp::min(limit, spare[0] + spare[1]));
    assert!(iovecs[0].len() == want[0] && iovecs[1].len() == want[1]);
    assert!(unsafe { iovecs[0].ptr() } == unsafe { bases[0].add(lens[0]) });
    assert!(unsafe { iovecs[1].ptr() } == unsafe { bases[1].add(lens[1]) });
    let total = want[0] + want[1];
    assert!(total <= limit, "limit exceeded");
    assert!(b.total_spare_capacity() as usize == total, "total_spare_capacity() agrees with the iovecs");
    assert!(b.has_spare_capacity() == (total != 0), "has_spare_capacity() agrees with the iovecs");
    let n: usize = kani::any();
    kani::assume(n <= total);
    unsafe { b.set_init(n) };
    let v = b.into_inner();
    let got = model_distribute(spare, n);
    assert!(v[0].len() == lens[0] + got[0] && v[1].len() == lens[1] + got[1]);
    kani::cover!(limit > u32::MAX as usize && total > 0);
    kani::cover!(limit > spare[0] && limit < spare[0] + spare[1] && n == total);
}

// ---------------------------------------------------------------------------
// SkipBuf / ReadNBuf / iovec wrappers
// ---------------------------------------------------------------------------

//@ prop: C14 C10
//@ tier: quick
//@ what: SkipBuf: parts() == (base+skip, len-skip), clamped to (base, 0) when skip >= len; len()/is_empty() agree
//@ bound: buffer 0..=4 bytes, skip any u32
//@ encodes: <io::SkipBuf<B> as Buf>::parts
#[kani::proof]
#[kani::unwind(6)]
fn c14_skipbuf() {
    let v = any_vec::<4>();
    let len = v.len();
    let base = v.as_ptr();
    let skip: u32 = kani::any();
    let b = crate::io::SkipBuf { buf: v, skip };
    let (p, l) = unsafe { b.parts() };
    if (skip as usize) < len {
        assert!(p == unsafe { base.add(skip as usize) });
        assert!(l as usize == len - skip as usize);
    } else {
        assert!(l == 0);
        assert!(p == base);
    }
    assert!(b.len() == l as usize);
    assert!(b.is_empty() == (l == 0));
    kani::cover!(skip > 0 && (skip as usize) < len);
    kani::cover!(skip as usize == len && len > 0);
    kani::cover!(skip == u32::MAX);
}

//@ prop: C14 C10
//@ tier: quick
//@ what: ReadNBuf<Vec<u8>> forwards the pair and capacities of the inner buffer unchanged and records n in last_read on set_init
//@ bound: capacity 0..=4, any n <= spare
//@ encodes: <io::ReadNBuf<B> as BufMut>::{parts_mut,set_init,spare_capacity,has_spare_capacity}
#[kani::proof]
#[kani::unwind(6)]
fn c14_readnbuf() {
    let v = any_vec::<4>();
    let len = v.len();
    let cap = v.capacity();
    let base = v.as_ptr();
    let mut b = crate::io::ReadNBuf { buf: v, last_read: kani::any() };
    let (p, l) = unsafe { b.parts_mut() };
    assert!(p as *const u8 == unsafe { base.add(len) });
    assert!(l as usize == cap - len);
    assert!(b.spare_capacity() == l);
    assert!(b.has_spare_capacity() == (l != 0));
    let n: usize = kani::any();
    kani::assume(n <= l as usize);
    unsafe { b.set_init(n) };
    assert!(b.last_read == n);
    assert!(b.buf.len() == len + n);
    kani::cover!(n > 0);
}

//@ prop: C14 C10
//@ tier: quick
//@ what: ReadNBuf<[Vec<u8>;2]> (vectored) forwards iovecs/capacity and records n
//@ bound: N=2, capacities 0..=3
//@ encodes: <io::ReadNBuf<B> as BufMutSlice<N>>
#[kani::proof]
#[kani::unwind(5)]
fn c14_readnbuf_slice() {
    let bufs = [any_vec::<VCAP>(), any_vec::<VCAP>()];
    let lens = [bufs[0].len(), bufs[1].len()];
    let spare = [bufs[0].capacity() - lens[0], bufs[1].capacity() - lens[1]];
    let bases = [bufs[0].as_ptr(), bufs[1].as_ptr()];
    let mut b = crate::io::ReadNBuf { buf: bufs, last_read: kani::any() };
    let iovecs = unsafe { b.as_iovecs_mut() };
    assert!(iovecs[0].len() == spare[0] && iovecs[1].len() == spare[1]);
    assert!(unsafe { iovecs[0].ptr() } == unsafe { bases[0].add(lens[0]) });
    assert!(unsafe { iovecs[1].ptr() } == unsafe { bases[1].add(lens[1]) });
    assert!(b.total_spare_capacity() as usize == spare[0] + spare[1]);
    assert!(b.has_spare_capacity() == (spare[0] + spare[1] != 0));
    let n: usize = kani::any();
    kani::assume(n <= spare[0] + spare[1]);
    unsafe { BufMutSlice::set_init(&mut b, n) };
    assert!(b.last_read == n);
    let got = model_distribute(spare, n);
    assert!(b.buf[0].len() == lens[0] + got[0] && b.buf[1].len() == lens[1] + got[1]);
    kani::cover!(n > spare[0] && spare[0] > 0);
}

//@ prop: C14
//@ tier: quick
//@ what: iovec wrappers: IoSlice::skip(n) advances the pointer by n and shortens by n (n <= len), set_len(m) only shortens; IoMutSlice::set_len
//@ bound: buffer 0..=4 bytes, all n <= len
//@ encodes: unix::IoSlice::{new,skip,set_len,len,ptr,as_bytes}; unix::IoMutSlice::{new,set_len,len,ptr,parts_mut}
#[kani::proof]
#[kani::unwind(6)]
fn c14_iovec_wrappers() {
    let mut v = any_vec::<4>();
    let len = v.len();
    let cap = v.capacity();
    let base = v.as_ptr();
    let mut s = unsafe { IoSlice::new(&v) };
    assert!(s.len() == len && unsafe { s.ptr() } == base);
    let n: usize = kani::any();
    kani::assume(n <= len);
    unsafe { s.skip(n) };
    assert!(s.len() == len - n);
    assert!(unsafe { s.ptr() } == unsafe { base.add(n) });
    let m: usize = kani::any();
    kani::assume(m <= len - n);
    unsafe { s.set_len(m) };
    assert!(s.len() == m);
    assert!(unsafe { s.ptr() } == unsafe { base.add(n) });
    let mut ms = unsafe { IoMutSlice::new(&mut v) };
    assert!(ms.len() == cap - len);
    assert!(unsafe { ms.ptr() } == unsafe { base.add(len) });
    let k: usize = kani::any();
    kani::assume(k <= cap - len);
    unsafe { ms.set_len(k) };
    assert!(ms.len() == k);
    assert!(unsafe { ms.ptr() } == unsafe { base.add(len) });
    kani::cover!(n > 0 && m > 0);
    kani::cover!(k < cap - len);
}
