//@@ attach: src/lib.rs
//! Kani stubs that cut verification cost without changing what a harness
//! decides. Each use is listed in the harness's `//@ stubs:` line and ends up
//! in the evidence file.
#![allow(dead_code, unused_imports, clippy::all, clippy::pedantic)]

/// Replaces `<core::io::CustomOwner as Drop>::drop`: dropping the payload of a
/// *custom* `io::Error` is skipped. The real function calls a type-erased
/// `unsafe fn(*mut ())`; CBMC resolves that by fanning out over every function
/// of that signature (including a10's `drop_state`), recursively -- measured
/// 4x symbolic-execution time and out-of-memory runs. No property depends on
/// io::Error's internal allocation being released.
pub(crate) fn custom_owner_drop_noop(_s: &mut core::io::CustomOwner) {}

/// Replaces `crate::lock`: yield point, then `try_lock`. In a sequential model
/// a lock that is already held can only be held by the caller itself, which is
/// a self-deadlock of the real (non-reentrant) `Mutex`; that is reported as a
/// failure. Cuts std's contended-lock spin loop and futex call.
pub(crate) fn lock_model<'a, T>(mutex: &'a std::sync::Mutex<T>) -> std::sync::MutexGuard<'a, T> {
    crate::io_uring::verif_hooks::yield_point(crate::io_uring::verif_hooks::YIELD_LOCK);
    match mutex.try_lock() {
        Ok(guard) => guard,
        Err(std::sync::TryLockError::Poisoned(err)) => err.into_inner(),
        Err(std::sync::TryLockError::WouldBlock) => panic!("self-deadlock: lock already held by this thread"),
    }
}

/// Vec with *concrete* capacity CAP, symbolic length <= CAP, symbolic contents
/// (see harness/c14.rs for why the capacity is concrete).
pub(crate) fn any_vec<const CAP: usize>() -> Vec<u8> {
    let len: usize = kani::any();
    kani::assume(len <= CAP);
    let mut v: Vec<u8> = Vec::with_capacity(CAP);
    kani::assume(v.capacity() == CAP);
    let init: [u8; CAP] = kani::any();
    unsafe {
        core::ptr::copy_nonoverlapping(init.as_ptr(), v.as_mut_ptr(), CAP);
        v.set_len(len);
    }
    v
}

/// Replaces `std::hash::RandomState::new`: fixed SipHash keys instead of the
/// `getrandom(2)` system call (not executable under Kani). The keys only
/// randomise bucket order; no property depends on them.
pub(crate) fn random_state_fixed() -> std::hash::RandomState {
    const _SIZE: () = assert!(std::mem::size_of::<std::hash::RandomState>() == 16);
    unsafe { std::mem::transmute::<(u64, u64), std::hash::RandomState>((0x0123_4567_89ab_cdef, 0x0f1e_2d3c_4b5a_6978)) }
}

/// Replace SipHash by the constant hash 0 (every key lands in one bucket; the
/// map stays correct through key equality). Hashing a symbolic key bit-blasts
/// SipHash-1-3 and did not finish in CBMC.
pub(crate) fn hasher_write_noop(_h: &mut std::hash::DefaultHasher, _bytes: &[u8]) {}
pub(crate) fn hasher_finish_zero(_h: &std::hash::DefaultHasher) -> u64 {
    0
}

/// Replaces `std::mem::swap`: typed moves instead of the byte-chunk swap of
/// `swap_nonoverlapping_bytes`. After a byte-wise swap CBMC sees a Vec's data
/// pointer as a value reassembled from bytes, loses which object it points to,
/// and every later access through it becomes a case split over all of memory
/// (solver out of memory). Semantically identical.
pub(crate) fn typed_swap<T>(a: &mut T, b: &mut T) {
    unsafe {
        let t = std::ptr::read(a);
        std::ptr::write(a, std::ptr::read(b));
        std::ptr::write(b, t);
    }
}

/// Wrapper for every mutable static of the harnesses. Kani 0.68 gives a
/// `static mut` whose initial bytes equal those of some constant allocation
/// (e.g. `static mut N: usize = 0` and the constant `Ok(())` of
/// `io::Result<()>`, or a `false` flag and an `Ordering::Relaxed` constant)
/// the SAME storage: a write to the static then changes the constant
/// (measured: `N = 3; q(Ok(0))` with `fn q(x) { x?; Ok(()) }` returned the
/// bits 3). The magic makes the initial bytes unlike any constant.
#[repr(C)]
pub(crate) struct V<T> {
    pub(crate) v: T,
    magic: u64,
}

impl<T> V<T> {
    pub(crate) const fn new(v: T) -> V<T> {
        V { v, magic: 0x5EED_A10C_0FFE_E5A1 }
    }
}
