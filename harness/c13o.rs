//@@ attach: src/net/option.rs
//! C13: socket options -- level/name constants and value encoding/decoding
//! against getsockopt(2)/setsockopt(2) (socket(7), tcp(7)).
#![allow(dead_code, unused_imports, clippy::all, clippy::pedantic)]

use std::mem::MaybeUninit;

use super::{Get, Set};

fn lvl<T: Get>() -> u32 {
    T::LEVEL.0
}
fn opt<T: Get>() -> u32 {
    T::OPT.0
}
fn set_lvl_opt<T: Set>() -> (u32, u32) {
    (T::LEVEL.0, T::OPT.0)
}

/// A boolean option: decodes non-zero as true, encodes true as 1 / false as 0.
fn check_bool<T: Get<Storage = libc::c_int, Output = bool> + Set<Value = bool, Storage = libc::c_int>>() {
    let raw: libc::c_int = kani::any();
    kani::assume(raw >= 0);
    let got = unsafe { <T as Get>::init(MaybeUninit::new(raw), 4) };
    assert!(got == (raw != 0), "boolean option: enabled iff the kernel's int is non-zero");
    let v: bool = kani::any();
    assert!(<T as Set>::as_storage(v) == v as libc::c_int);
}

/// An integer option: the kernel's int, unchanged in both directions.
fn check_u32<T: Get<Storage = libc::c_int, Output = u32> + Set<Value = u32, Storage = libc::c_int>>() {
    let raw: libc::c_int = kani::any();
    let got = unsafe { <T as Get>::init(MaybeUninit::new(raw), 4) };
    assert!(got == raw as u32);
    let v: u32 = kani::any();
    assert!(<T as Set>::as_storage(v) == v as libc::c_int);
}

//@ prop: C13
//@ tier: quick
//@ what: every socket option names the level and option constant of the getsockopt(2)/setsockopt(2) call it documents (SO_* at SOL_SOCKET, TCP_* at IPPROTO_TCP), for reading and for writing, and hands the kernel a value buffer of exactly the C type's size
//@ bound: all 19 options of net::option
//@ encodes: net::option::{Error,KeepAlive,Linger,ReuseAddress,ReusePort,Type,RecvBuf,SendBuf,RecvLowWater,SendLowWater,TcpNoDelay,TcpKeepAliveCount,TcpKeepAliveInterval,TcpKeepAliveIdle,Domain,Protocol,Accept,IncomingCpu,TcpCork}::{LEVEL,OPT,as_mut_ptr}
#[kani::proof]
fn c13_socket_option_constants() {
    use super::*;
    let sock = libc::SOL_SOCKET as u32;
    let tcp = libc::IPPROTO_TCP as u32;
    assert!(lvl::<Error>() == sock && opt::<Error>() == libc::SO_ERROR as u32);
    assert!(lvl::<KeepAlive>() == sock && opt::<KeepAlive>() == libc::SO_KEEPALIVE as u32);
    assert!(lvl::<Linger>() == sock && opt::<Linger>() == libc::SO_LINGER as u32);
    assert!(lvl::<ReuseAddress>() == sock && opt::<ReuseAddress>() == libc::SO_REUSEADDR as u32);
    assert!(lvl::<ReusePort>() == sock && opt::<ReusePort>() == libc::SO_REUSEPORT as u32);
    assert!(lvl::<Type>() == sock && opt::<Type>() == libc::SO_TYPE as u32);
    assert!(lvl::<RecvBuf>() == sock && opt::<RecvBuf>() == libc::SO_RCVBUF as u32);
    assert!(lvl::<SendBuf>() == sock && opt::<SendBuf>() == libc::SO_SNDBUF as u32);
    assert!(lvl::<RecvLowWater>() == sock && opt::<RecvLowWater>() == libc::SO_RCVLOWAT as u32);
    assert!(lvl::<SendLowWater>() == sock && opt::<SendLowWater>() == libc::SO_SNDLOWAT as u32);
    assert!(lvl::<Domain>() == sock && opt::<Domain>() == libc::SO_DOMAIN as u32);
    assert!(lvl::<Protocol>() == sock && opt::<Protocol>() == libc::SO_PROTOCOL as u32);
    assert!(lvl::<Accept>() == sock && opt::<Accept>() == libc::SO_ACCEPTCONN as u32);
    assert!(lvl::<IncomingCpu>() == sock && opt::<IncomingCpu>() == libc::SO_INCOMING_CPU as u32);
    assert!(lvl::<TcpNoDelay>() == tcp && opt::<TcpNoDelay>() == libc::TCP_NODELAY as u32);
    assert!(lvl::<TcpKeepAliveCount>() == tcp && opt::<TcpKeepAliveCount>() == libc::TCP_KEEPCNT as u32);
    assert!(lvl::<TcpKeepAliveInterval>() == tcp && opt::<TcpKeepAliveInterval>() == libc::TCP_KEEPINTVL as u32);
    assert!(lvl::<TcpKeepAliveIdle>() == tcp && opt::<TcpKeepAliveIdle>() == libc::TCP_KEEPIDLE as u32);
    assert!(lvl::<TcpCork>() == tcp && opt::<TcpCork>() == libc::TCP_CORK as u32);
    // writing uses the same (level, name)
    assert!(set_lvl_opt::<KeepAlive>() == (sock, libc::SO_KEEPALIVE as u32));
    assert!(set_lvl_opt::<Linger>() == (sock, libc::SO_LINGER as u32));
    assert!(set_lvl_opt::<ReuseAddress>() == (sock, libc::SO_REUSEADDR as u32));
    assert!(set_lvl_opt::<ReusePort>() == (sock, libc::SO_REUSEPORT as u32));
    assert!(set_lvl_opt::<RecvBuf>() == (sock, libc::SO_RCVBUF as u32));
    assert!(set_lvl_opt::<SendBuf>() == (sock, libc::SO_SNDBUF as u32));
    assert!(set_lvl_opt::<RecvLowWater>() == (sock, libc::SO_RCVLOWAT as u32));
    assert!(set_lvl_opt::<IncomingCpu>() == (sock, libc::SO_INCOMING_CPU as u32));
    assert!(set_lvl_opt::<TcpNoDelay>() == (tcp, libc::TCP_NODELAY as u32));
    assert!(set_lvl_opt::<TcpKeepAliveCount>() == (tcp, libc::TCP_KEEPCNT as u32));
    assert!(set_lvl_opt::<TcpKeepAliveInterval>() == (tcp, libc::TCP_KEEPINTVL as u32));
    assert!(set_lvl_opt::<TcpKeepAliveIdle>() == (tcp, libc::TCP_KEEPIDLE as u32));
    assert!(set_lvl_opt::<TcpCork>() == (tcp, libc::TCP_CORK as u32));
    // the value buffer handed to getsockopt is the C type
    let mut l: MaybeUninit<libc::linger> = MaybeUninit::uninit();
    let (p, n) = unsafe { <Linger as Get>::as_mut_ptr(&mut l) };
    assert!(p == l.as_mut_ptr().cast() && n as usize == size_of::<libc::linger>());
    let mut i: MaybeUninit<libc::c_int> = MaybeUninit::uninit();
    let (p, n) = unsafe { <KeepAlive as Get>::as_mut_ptr(&mut i) };
    assert!(p == i.as_mut_ptr().cast() && n == 4);
    kani::cover!(true);
}

//@ prop: C13
//@ tier: quick
//@ what: socket option VALUES decode and encode like the C API: SO_LINGER is enabled iff l_onoff != 0 (whatever l_linger holds) and then reports l_linger seconds, and Some(n)/None encode to {1,n}/{0,0}; SO_ERROR is None iff 0 and otherwise that errno; boolean options (KEEPALIVE, REUSEADDR, REUSEPORT, TCP_NODELAY, TCP_CORK) are true iff non-zero and encode to 1/0; integer options (RCVBUF, SNDBUF, RCVLOWAT, INCOMING_CPU, TCP_KEEPCNT/INTVL/IDLE) pass the int through unchanged; SO_ACCEPTCONN is true iff non-zero; SO_TYPE/SO_DOMAIN/SO_PROTOCOL carry the kernel's number
//@ bound: every value of the kernel-side C types (struct linger: both fields any i32 with l_linger >= 0)
//@ encodes: net::option::*::{init,as_storage}
//@ stubs: <core::io::CustomOwner as Drop>::drop -> no-op
#[kani::proof]
#[kani::stub(<core::io::CustomOwner as core::ops::Drop>::drop, crate::verif_stubs::custom_owner_drop_noop)]
fn c13_socket_option_values() {
    use super::*;
    // SO_LINGER
    let onoff: libc::c_int = kani::any();
    let secs: libc::c_int = kani::any();
    kani::assume(onoff >= 0 && secs >= 0);
    let got = unsafe { <Linger as Get>::init(MaybeUninit::new(libc::linger { l_onoff: onoff, l_linger: secs }), 8) };
    assert!(got == if onoff != 0 { Some(secs as u32) } else { None }, "SO_LINGER: enabled iff l_onoff is set; the timeout is l_linger");
    let v: Option<u32> = if kani::any() { Some(kani::any()) } else { None };
    let st = <Linger as Set>::as_storage(v);
    assert!((st.l_onoff != 0) == v.is_some() && (v.is_none() || st.l_linger as u32 == v.unwrap()));
    // SO_ERROR
    let errno: libc::c_int = kani::any();
    kani::assume(errno >= 0 && errno < 4096);
    let e = unsafe { <Error as Get>::init(MaybeUninit::new(errno), 4) };
    match &e {
        None => assert!(errno == 0),
        Some(err) => assert!(errno != 0 && err.raw_os_error() == Some(errno)),
    }
    std::mem::forget(e);
    check_bool::<KeepAlive>();
    check_bool::<ReuseAddress>();
    check_bool::<ReusePort>();
    check_bool::<TcpNoDelay>();
    check_bool::<TcpCork>();
    check_u32::<RecvBuf>();
    check_u32::<SendBuf>();
    check_u32::<RecvLowWater>();
    // SO_INCOMING_CPU: -1 = not set
    let cpu: libc::c_int = kani::any();
    let got_cpu = unsafe { <IncomingCpu as Get>::init(MaybeUninit::new(cpu), 4) };
    assert!(got_cpu == if cpu < 0 { None } else { Some(cpu as u32) });
    let want_cpu: u32 = kani::any();
    assert!(<IncomingCpu as Set>::as_storage(want_cpu) == want_cpu as libc::c_int);
    check_u32::<TcpKeepAliveCount>();
    check_u32::<TcpKeepAliveInterval>();
    check_u32::<TcpKeepAliveIdle>();
    let raw: libc::c_int = kani::any();
    kani::assume(raw >= 0);
    assert!(unsafe { <Accept as Get>::init(MaybeUninit::new(raw), 4) } == (raw != 0));
    assert!(unsafe { <SendLowWater as Get>::init(MaybeUninit::new(raw), 4) } == raw as u32);
    let n: u32 = kani::any();
    assert!(unsafe { <Type as Get>::init(MaybeUninit::new(n), 4) }.0 == n);
    assert!(unsafe { <Protocol as Get>::init(MaybeUninit::new(n), 4) }.0 == n);
    assert!(unsafe { <Domain as Get>::init(MaybeUninit::new(raw), 4) }.0 == raw);
    kani::cover!(onoff == 1 && secs == 0, "enabled with a zero timeout");
    kani::cover!(onoff == 0 && secs == 25, "disabled with a stale timeout");
}
