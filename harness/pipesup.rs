//@@ attach: src/pipe.rs
//! Accessors for C13 (private fields of `pipe` futures).
#![allow(dead_code, unused_imports, clippy::all, clippy::pedantic)]

pub(crate) fn pipe_res_addr(f: &super::Pipe) -> usize {
    crate::io_uring::op::verif_opsup::resources_addr(&f.state)
}
