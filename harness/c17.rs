//@@ attach: src/inotify/mod.rs
//! C17: filesystem-watch (inotify) event streams are decoded exactly.
#![allow(dead_code, unused_imports, static_mut_refs, clippy::all, clippy::pedantic)]

use std::collections::HashMap;
use std::ffi::CString;
use std::os::unix::ffi::OsStrExt;
use std::pin::Pin;
use std::task::{Context, Poll};

use super::{Event, EventsState, Watching};
use crate::fs::notify::{self, Events};
use crate::io::verif_c10::{FD, rig};
use crate::io_uring::op::verif_opsup as ops;
use crate::io_uring::verif_kernel as k;

const HDR: usize = 16;
/// Name field sizes used (the kernel pads names with NULs up to a multiple
/// of the header size; the decoder must cope with any amount of padding).
const FIELD: usize = 2;
const REC: usize = HDR + FIELD;

#[derive(Copy, Clone)]
struct Rec {
    wd: i32,
    mask: u32,
    cookie: u32,
    field: usize,    // length of the name field: 0 or FIELD
    name_len: usize, // bytes of the name proper, <= field (rest: NUL padding)
    name: [u8; FIELD],
}


/// `field` is concrete per harness: a symbolic record size makes every later
/// header read a symbolic-offset access into the heap buffer (out of memory).
fn any_rec(field: usize) -> Rec {
    let name_len: usize = kani::any();
    kani::assume(name_len <= field);
    // a non-empty name field holds a non-empty name (kernel contract)
    kani::assume(field == 0 || name_len >= 1);
    let name: [u8; FIELD] = kani::any();
    kani::assume(name[0] != 0 && name[1] != 0);
    // concrete mask: a symbolic one read back from the heap buffer keeps the
    // IN_IGNORED / IN_Q_OVERFLOW branches (HashMap removal, further loop
    // iterations) alive in symbolic execution although they are infeasible
    let mask: u32 = libc::IN_CREATE | libc::IN_ISDIR;
    Rec { wd: kani::any(), mask, cookie: kani::any(), field, name_len, name }
}

/// Serialise a record at `at` (inotify(7) layout), returns the next offset.
fn put(buf: &mut [u8; 2 * REC], at: usize, r: &Rec) -> usize {
    let w = |buf: &mut [u8; 2 * REC], o: usize, v: [u8; 4]| {
        buf[o] = v[0];
        buf[o + 1] = v[1];
        buf[o + 2] = v[2];
        buf[o + 3] = v[3];
    };
    w(buf, at, r.wd.to_ne_bytes());
    w(buf, at + 4, r.mask.to_ne_bytes());
    w(buf, at + 8, r.cookie.to_ne_bytes());
    w(buf, at + 12, (r.field as u32).to_ne_bytes());
    if r.field != 0 {
        let mut i = 0;
        while i < FIELD {
            buf[at + HDR + i] = if i < r.name_len { r.name[i] } else { 0 };
            i += 1;
        }
    }
    at + HDR + r.field
}

fn as_sys<'a>(e: &'a notify::Event) -> &'a Event {
    unsafe { &*(std::ptr::from_ref(e) as *const Event) }
}

fn check_event(e: &notify::Event, r: &Rec, base: *const u8, at: usize) {
    let e = as_sys(e);
    assert!(e.mask() == r.mask, "event carries the record's mask");
    assert!(e.event.wd == r.wd && e.event.cookie == r.cookie);
    let p = e.file_path().as_os_str().as_bytes();
    assert!(p.len() == r.name_len, "name without the NUL padding");
    let mut i = 0;
    while i < FIELD {
        if i < r.name_len {
            assert!(p[i] == r.name[i]);
        }
        i += 1;
    }
    assert!(std::ptr::from_ref(e).cast::<u8>() == unsafe { base.add(at) }, "event is read at its record's offset");
}

/// One decoding step: the buffer holds an already-processed record (junk
/// header bytes) followed by the record under test at the concrete offset
/// HDR; `processed` = HDR. One step from an arbitrary position is inductive
/// over the records of a batch.
fn step(field: usize, overflow: bool) -> usize {
    let fd = rig();
    let mut watching: Watching = HashMap::new();
    let mut r = any_rec(field);
    if overflow {
        r.mask = libc::IN_Q_OVERFLOW;
    }
    let mut raw = [0xEEu8; 2 * REC];
    let end = put(&mut raw, HDR, &r);
    let mut buf: Vec<u8> = Vec::with_capacity(2 * REC);
    unsafe {
        std::ptr::copy_nonoverlapping(raw.as_ptr(), buf.as_mut_ptr(), 2 * REC);
        buf.set_len(end);
    }
    let base = buf.as_ptr();
    let mut events = Events { fd: &fd, watching: &mut watching, state: EventsState::Processing { buf, processed: HDR, fd: &fd } };
    ops::model_reset();
    let w = k::waker(0);
    let mut ctx = Context::from_waker(&w);
    let res = Pin::new(&mut events).poll_next(&mut ctx);
    if overflow {
        assert!(res.is_pending(), "overflow marker skipped; batch exhausted: next read started");
        assert!(ops::requests() == 1, "exactly one new read once the batch is exhausted");
        let q = ops::last_request();
        assert!(q.opcode == 22 && q.fd == FD && q.addr == base.addr() as u64 && q.len as usize == 2 * REC, "same buffer, cleared, whole capacity resubmitted");
    } else {
        match res {
            Poll::Ready(Some(Ok(e))) => check_event(e, &r, base, HDR),
            _ => assert!(false, "record must be yielded"),
        }
        assert!(ops::requests() == 0);
        match &events.state {
            EventsState::Processing { processed, buf, .. } => assert!(*processed == end && buf.len() == end, "advanced by exactly one record"),
            _ => assert!(false, "still processing"),
        }
    }
    std::mem::forget(events);
    std::mem::forget(watching);
    std::mem::forget(fd);
    r.name_len
}

//@ prop: C17
//@ tier: quick
//@ what: one decoding step on a record with a name field (1..=2 name bytes + NUL padding, any wd/mask/cookie) that ends exactly at the end of a buffer of EXACTLY the batch size: the event is read at its record's offset with the record's mask and the unpadded name, every read stays inside the buffer (CBMC bounds checks), `processed` advances by exactly the record
//@ bound: one record at a concrete offset after an earlier one; name field 2 bytes; header fields, name bytes and name length symbolic (IN_IGNORED/IN_Q_OVERFLOW excluded)
//@ encodes: fs::notify::Events::poll_next; inotify::Events::poll_sys; inotify::Event::{file_path,mask}
//@ stubs: io_uring::op::poll -> submit-only model; crate::lock -> try_lock model; <core::io::CustomOwner as Drop>::drop -> no-op; std::hash::RandomState::new -> fixed keys; DefaultHasher::{write,finish} -> constant hash; Waker::{drop,clone,wake,wake_by_ref} -> direct calls to the counting waker
#[kani::proof]
#[kani::unwind(3)]
#[kani::stub(crate::io_uring::op::poll, crate::io_uring::op::verif_opsup::poll_model_submit_only)]
#[kani::stub(<core::io::CustomOwner as core::ops::Drop>::drop, crate::verif_stubs::custom_owner_drop_noop)]
#[kani::stub(crate::lock, crate::verif_stubs::lock_model)]
#[kani::stub(std::hash::RandomState::new, crate::verif_stubs::random_state_fixed)]
#[kani::stub(<std::hash::DefaultHasher as std::hash::Hasher>::write, crate::verif_stubs::hasher_write_noop)]
#[kani::stub(<std::hash::DefaultHasher as std::hash::Hasher>::finish, crate::verif_stubs::hasher_finish_zero)]
#[kani::stub(<std::task::Waker as std::ops::Drop>::drop, crate::io_uring::verif_kernel::waker_drop_direct)]
#[kani::stub(<std::task::Waker as std::clone::Clone>::clone, crate::io_uring::verif_kernel::waker_clone_direct)]
#[kani::stub(std::task::Waker::wake, crate::io_uring::verif_kernel::waker_wake_direct)]
#[kani::stub(std::task::Waker::wake_by_ref, crate::io_uring::verif_kernel::waker_wake_by_ref_direct)]
fn c17_step_named() {
    let name_len = step(FIELD, false);
    kani::cover!(name_len == FIELD, "no padding");
    kani::cover!(name_len == 1, "padding NUL stripped");
}

//@ prop: C17
//@ tier: quick
//@ what: one decoding step on a record without a name (events on the watched entry itself): empty file name, header only
//@ bound: one record, name field 0 bytes
//@ encodes: inotify::Events::poll_sys
//@ stubs: as c17_step_named
#[kani::proof]
#[kani::unwind(3)]
#[kani::stub(crate::io_uring::op::poll, crate::io_uring::op::verif_opsup::poll_model_submit_only)]
#[kani::stub(<core::io::CustomOwner as core::ops::Drop>::drop, crate::verif_stubs::custom_owner_drop_noop)]
#[kani::stub(crate::lock, crate::verif_stubs::lock_model)]
#[kani::stub(std::hash::RandomState::new, crate::verif_stubs::random_state_fixed)]
#[kani::stub(<std::hash::DefaultHasher as std::hash::Hasher>::write, crate::verif_stubs::hasher_write_noop)]
#[kani::stub(<std::hash::DefaultHasher as std::hash::Hasher>::finish, crate::verif_stubs::hasher_finish_zero)]
#[kani::stub(<std::task::Waker as std::ops::Drop>::drop, crate::io_uring::verif_kernel::waker_drop_direct)]
#[kani::stub(<std::task::Waker as std::clone::Clone>::clone, crate::io_uring::verif_kernel::waker_clone_direct)]
#[kani::stub(std::task::Waker::wake, crate::io_uring::verif_kernel::waker_wake_direct)]
#[kani::stub(std::task::Waker::wake_by_ref, crate::io_uring::verif_kernel::waker_wake_by_ref_direct)]
fn c17_step_bare() {
    let name_len = step(0, false);
    kani::cover!(name_len == 0);
}

/// Batch of two records: a marker record the decoder must skip (IN_IGNORED or
/// IN_Q_OVERFLOW), then an ordinary one that must be yielded -- both inside
/// the Processing state, no new read involved.
fn skip_then_yield(marker_mask: u32, marker_named: bool) -> (i32, bool) {
    let fd = rig();
    let mut watching: Watching = HashMap::new();
    let wd1: i32 = kani::any();
    let r1 = Rec { wd: wd1, mask: marker_mask, cookie: 0, field: if marker_named { FIELD } else { 0 }, name_len: if marker_named { 1 } else { 0 }, name: [b'x', 1] };
    let r2 = any_rec(FIELD);
    let mut raw = [0xEEu8; 2 * REC];
    let at2 = put(&mut raw, 0, &r1);
    let end = put(&mut raw, at2, &r2);
    let mut buf: Vec<u8> = Vec::with_capacity(2 * REC);
    unsafe {
        std::ptr::copy_nonoverlapping(raw.as_ptr(), buf.as_mut_ptr(), 2 * REC);
        buf.set_len(end);
    }
    let base = buf.as_ptr();
    let mut events = Events { fd: &fd, watching: &mut watching, state: EventsState::Processing { buf, processed: 0, fd: &fd } };
    ops::model_reset();
    let w = k::waker(0);
    let mut ctx = Context::from_waker(&w);
    match Pin::new(&mut events).poll_next(&mut ctx) {
        Poll::Ready(Some(Ok(e))) => check_event(e, &r2, base, at2),
        _ => assert!(false, "marker skipped, following event yielded"),
    }
    assert!(ops::requests() == 0, "no read started: the batch is not exhausted");
    match &events.state {
        EventsState::Processing { processed, .. } => assert!(*processed == end, "advanced over both records"),
        _ => assert!(false, "still processing"),
    }
    let known = events.watching.contains_key(&wd1);
    std::mem::forget(events);
    std::mem::forget(watching);
    std::mem::forget(fd);
    (wd1, known)
}

//@ prop: C17
//@ tier: quick
//@ what: an IN_Q_OVERFLOW marker is not yielded; the record after it is decoded at its own offset
//@ bound: batch of two records at concrete offsets: overflow marker (no name, as the kernel posts it) + one named record (name bytes, name length, wd, cookie symbolic; mask concrete)
//@ encodes: fs::notify::Events::poll_next; inotify::Events::poll_sys
//@ stubs: io_uring::op::poll -> submit-only model; crate::lock -> try_lock model; <core::io::CustomOwner as Drop>::drop -> no-op; RandomState::new / DefaultHasher -> constants; Waker -> direct calls
#[kani::proof]
#[kani::unwind(3)]
#[kani::stub(crate::io_uring::op::poll, crate::io_uring::op::verif_opsup::poll_model_submit_only)]
#[kani::stub(<core::io::CustomOwner as core::ops::Drop>::drop, crate::verif_stubs::custom_owner_drop_noop)]
#[kani::stub(crate::lock, crate::verif_stubs::lock_model)]
#[kani::stub(std::hash::RandomState::new, crate::verif_stubs::random_state_fixed)]
#[kani::stub(<std::hash::DefaultHasher as std::hash::Hasher>::write, crate::verif_stubs::hasher_write_noop)]
#[kani::stub(<std::hash::DefaultHasher as std::hash::Hasher>::finish, crate::verif_stubs::hasher_finish_zero)]
#[kani::stub(<std::task::Waker as std::ops::Drop>::drop, crate::io_uring::verif_kernel::waker_drop_direct)]
#[kani::stub(<std::task::Waker as std::clone::Clone>::clone, crate::io_uring::verif_kernel::waker_clone_direct)]
#[kani::stub(std::task::Waker::wake, crate::io_uring::verif_kernel::waker_wake_direct)]
#[kani::stub(std::task::Waker::wake_by_ref, crate::io_uring::verif_kernel::waker_wake_by_ref_direct)]
fn c17_overflow_skipped() {
    // the kernel's overflow marker has no name (len 0); records are 4-byte
    // aligned because the kernel pads every name field
    skip_then_yield(libc::IN_Q_OVERFLOW, false);
    kani::cover!(true);
}

//@ prop: C17
//@ tier: quick
//@ what: an IN_IGNORED record (unknown watch descriptor) is not yielded and does not disturb the record after it, which is decoded at its own offset
//@ bound: batch of two records at concrete offsets: IN_IGNORED for any wd on an EMPTY watch table + one named record
//@ encodes: fs::notify::Events::poll_next; inotify::Events::poll_sys (IN_IGNORED arm, HashMap::remove on an empty table)
//@ stubs: as c17_overflow_skipped
#[kani::proof]
#[kani::unwind(3)]
#[kani::stub(crate::io_uring::op::poll, crate::io_uring::op::verif_opsup::poll_model_submit_only)]
#[kani::stub(<core::io::CustomOwner as core::ops::Drop>::drop, crate::verif_stubs::custom_owner_drop_noop)]
#[kani::stub(crate::lock, crate::verif_stubs::lock_model)]
#[kani::stub(std::hash::RandomState::new, crate::verif_stubs::random_state_fixed)]
#[kani::stub(<std::hash::DefaultHasher as std::hash::Hasher>::write, crate::verif_stubs::hasher_write_noop)]
#[kani::stub(<std::hash::DefaultHasher as std::hash::Hasher>::finish, crate::verif_stubs::hasher_finish_zero)]
#[kani::stub(<std::task::Waker as std::ops::Drop>::drop, crate::io_uring::verif_kernel::waker_drop_direct)]
#[kani::stub(<std::task::Waker as std::clone::Clone>::clone, crate::io_uring::verif_kernel::waker_clone_direct)]
#[kani::stub(std::task::Waker::wake, crate::io_uring::verif_kernel::waker_wake_direct)]
#[kani::stub(std::task::Waker::wake_by_ref, crate::io_uring::verif_kernel::waker_wake_by_ref_direct)]
fn c17_ignored_skipped() {
    let (_, known) = skip_then_yield(libc::IN_IGNORED, false);
    assert!(!known);
    kani::cover!(true);
}
