//! No-op `log` facade: every macro swallows its tokens and expands to `()`.
//! Arguments are therefore not evaluated; a10's log statements only format
//! already-computed values (checked by `bin/check`'s `log-args` lint: no `log::`
//! macro argument contains a call with side effects).
#![no_std]

#[macro_export]
macro_rules! trace { ($($t:tt)*) => { () }; }
#[macro_export]
macro_rules! debug { ($($t:tt)*) => { () }; }
#[macro_export]
macro_rules! info { ($($t:tt)*) => { () }; }
#[macro_export]
macro_rules! warn { ($($t:tt)*) => { () }; }
#[macro_export]
macro_rules! error { ($($t:tt)*) => { () }; }
#[macro_export]
macro_rules! log { ($($t:tt)*) => { () }; }
#[macro_export]
macro_rules! log_enabled { ($($t:tt)*) => { false }; }
